/* C06_cmp.c -- comparison is a total order; operators, overloads and hashes agree with it.
 * Oracle (written from the property text): bytewise/elementwise lexicographic order, a proper prefix first; case-insensitive
 * equivalence = equality after folding ASCII A-Z to a-z.
 *  -DOP=1 static buffer compare (ptr,len,ptr,len[,maxlen]) for element type -DSFX/-DELEM; lengths are 64-bit symbolic
 *  -DOP=2 buffer object overloads (compare, compare_n, ==, !=, <, C-string forms)
 *  -DOP=3 ST::string pair: compare family, operators, less_i/equal_i, every overload, both case modes
 *  -DOP=4 triples: transitivity (both case modes)
 *  -DOP=5 case mapping (to_upper/to_lower), with -DWITH_HASH also hash/hash_i/std::hash consistency
 *  -DN=<max elements> */
#include "vp_harness.h"
#include "k.h"
#define CAT_(a, b) a##b
#define CAT(a, b) CAT_(a, b)
#define FN(name) CAT(name, SFX)

static int sgn(int x) { return x < 0 ? -1 : x > 0 ? 1 : 0; }
static uint8_t fold(uint8_t c) { return (c >= 'A' && c <= 'Z') ? (uint8_t)(c + 32) : c; }

#if OP == 1 || OP == 2
#ifndef ELEM_SIGNED
#define ELEM_SIGNED 0
#endif
static ELEM in_elem(void) { return (ELEM)(sizeof(ELEM) == 1 ? vp_in_u8() : sizeof(ELEM) == 2 ? vp_in_u16() : vp_in_u32()); }
/* element order: unsigned for char (char_traits<char> compares as unsigned char), char16_t, char32_t; wchar_t is a signed
 * 32-bit type on this platform and char_traits<wchar_t> orders by its value */
static int elem_lt(ELEM a, ELEM b) { return ELEM_SIGNED ? ((int32_t)a < (int32_t)b) : (a < b); }
static int oracle(const ELEM *l, uint64_t ls, const ELEM *r, uint64_t rs) {
  uint64_t m = ls < rs ? ls : rs;
  for (uint64_t i = 0; i < N; i++) if (i < m && l[i] != r[i]) return elem_lt(l[i], r[i]) ? -1 : 1;
  return ls < rs ? -1 : ls > rs ? 1 : 0;
}
#endif

#if OP == 1
int vp_harness_main(void) {
  ELEM sl[N + 1], sr[N + 1];
  uint64_t ln = vp_in_u64(), rs = vp_in_u64(); ASSUME(ln <= N);          /* rs: ANY 64-bit length */
  uint64_t robj = rs < N ? rs : N;                                        /* only min(ln, rs) <= robj elements may be read */
  for (int i = 0; i < N; i++) { sl[i] = in_elem(); sr[i] = in_elem(); }
  ELEM *l = (ELEM *)vp_exact(ln * sizeof(ELEM)), *r = (ELEM *)vp_exact(robj * sizeof(ELEM));
  for (uint64_t i = 0; i < N; i++) { if (i < ln) l[i] = sl[i]; if (i < robj) r[i] = sr[i]; }
  uint8_t swap = vp_in_u8(); ASSUME(swap <= 1);
  int c, o;
  if (!swap) { c = (int)FN(vp_bufcmp_)(l, ln, r, rs); o = oracle(sl, ln, sr, rs); }
  else { c = (int)FN(vp_bufcmp_)(r, rs, l, ln); o = oracle(sr, rs, sl, ln); }
  ASSERT(sgn(c) == o, "sign of compare(ptr,len,ptr,len) equals the lexicographic order, for lengths of any magnitude");
  /* compare_n form: arbitrary 64-bit limit */
  uint64_t maxlen = vp_in_u64();
  uint64_t l2 = ln < maxlen ? ln : maxlen, r2 = rs < maxlen ? rs : maxlen;
  int cn = (int)FN(vp_bufcmpn_)(l, ln, r, rs, maxlen);
  ASSERT(sgn(cn) == oracle(sl, l2, sr, r2), "compare with a limit n equals the order of the n-element prefixes");
  if (rs >= ((uint64_t)1 << 31) && ln == 0) REACH("length difference of 2^31 or more");
  REACH("end of harness");
  return 0;
}
#elif OP == 2
typedef CAT(CAT(T_vp_bufcmp_obj_, SFX), _a0) buf_t;
VP_BUF_HELPERS(B, buf_t, ELEM, LOCAL_LEN(sizeof(ELEM)), N)
int vp_harness_main(void) {
  buf_t a, b; ELEM sa[N + 1], sb[N + 1];
  B_mk(&a, sa); B_mk(&b, sb);
  uint64_t an = a.f1, bn = b.f1;
  int o = oracle(sa, an, sb, bn);
  ASSERT(sgn((int)FN(vp_bufcmp_obj_)(&a, &b)) == o, "buffer.compare(buffer)");
  ASSERT((FN(vp_bufeq_obj_)(&a, &b) != 0) == (o == 0), "buffer == buffer");
  ASSERT((FN(vp_bufne_obj_)(&a, &b) != 0) == (o != 0), "buffer != buffer");
  ASSERT((FN(vp_buflt_obj_)(&a, &b) != 0) == (o < 0), "buffer < buffer");
  uint64_t n = vp_in_u64();
  ASSERT(sgn((int)FN(vp_bufcmpn_obj_)(&a, &b, n)) == oracle(sa, an < n ? an : n, sb, bn < n ? bn : n), "buffer.compare_n(buffer, n)");
  /* NUL-terminated forms see b up to its first NUL */
  uint64_t z = bn; for (uint64_t i = N; i > 0; i--) if (i - 1 < bn && sb[i - 1] == 0) z = i - 1;
  ASSERT(sgn((int)FN(vp_bufcmp_cstr_)(&a, b.f0)) == oracle(sa, an, sb, z), "buffer.compare(const T*)");
  ASSERT(sgn((int)FN(vp_bufcmpn_cstr_)(&a, b.f0, n)) == oracle(sa, an < n ? an : n, sb, z < n ? z : n), "buffer.compare_n(const T*, n)");
  ASSERT(sgn((int)FN(vp_bufcmp_cstr_)(&a, (ELEM *)0)) == (an ? 1 : 0), "buffer.compare(nullptr) treats null as empty");
  for (uint64_t i = 0; i < N; i++) { if (i < an) ASSERT(a.f0[i] == sa[i], "left operand unchanged"); if (i < bn) ASSERT(b.f0[i] == sb[i], "right operand unchanged"); }
  B_destroy(&a); B_destroy(&b);
  REACH("end of harness");
  return 0;
}
#else
/* ---- ST::string */
typedef vp_string_t str_t;
VP_BUF_HELPERS(S, __typeof__(((str_t *)0)->f0), uint8_t, VP_SSO, N)
static int ocs(const uint8_t *l, uint64_t ls, const uint8_t *r, uint64_t rs) {
  uint64_t m = ls < rs ? ls : rs;
  for (uint64_t i = 0; i < N; i++) if (i < m && l[i] != r[i]) return l[i] < r[i] ? -1 : 1;
  return ls < rs ? -1 : ls > rs ? 1 : 0;
}
static int feq(const uint8_t *l, uint64_t ls, const uint8_t *r, uint64_t rs) {   /* equal after ASCII case folding */
  if (ls != rs) return 0;
  for (uint64_t i = 0; i < N; i++) if (i < ls && fold(l[i]) != fold(r[i])) return 0;
  return 1;
}
static uint64_t umin(uint64_t a, uint64_t b) { return a < b ? a : b; }

#if OP == 3
int vp_harness_main(void) {
  str_t a, b; uint8_t sa[N + 1], sb[N + 1];
  S_mk(&a.f0, sa); S_mk(&b.f0, sb);
  uint64_t an = a.f0.f1, bn = b.f0.f1;
  uint64_t n = vp_in_u64();
  uint64_t z = bn; for (uint64_t i = N; i > 0; i--) if (i - 1 < bn && sb[i - 1] == 0) z = i - 1;
  int o = ocs(sa, an, sb, bn);
  /* case-sensitive family */
  int c = (int)vp_str_compare(&a, &b, 0);
  ASSERT(sgn(c) == o, "compare(string): sign equals bytewise unsigned lexicographic order (embedded NULs included)");
  ASSERT(sgn((int)vp_str_compare(&b, &a, 0)) == -o, "compare is antisymmetric");
  ASSERT((vp_str_eq(&a, &b) != 0) == (o == 0), "operator== agrees with compare");
  ASSERT((vp_str_ne(&a, &b) != 0) == (o != 0), "operator!= agrees with compare");
  ASSERT((vp_str_lt(&a, &b) != 0) == (o < 0), "operator< agrees with compare");
  ASSERT(sgn((int)vp_str_compare_n(&a, &b, n, 0)) == ocs(sa, umin(an, n), sb, umin(bn, n)), "compare_n(string, n) compares the n-byte prefixes, any n");
  ASSERT(sgn((int)vp_str_compare_cstr(&a, b.f0.f0, 0)) == ocs(sa, an, sb, z), "compare(const char*) agrees (right operand up to its first NUL)");
  ASSERT(sgn((int)vp_str_compare_n_cstr(&a, b.f0.f0, n, 0)) == ocs(sa, umin(an, n), sb, umin(z, n)), "compare_n(const char*, n) agrees");
  ASSERT((vp_str_eq_cstr(&a, b.f0.f0) != 0) == (ocs(sa, an, sb, z) == 0), "operator==(const char*) agrees");
  /* the const char8_t* overloads (C++20) */
  ASSERT(sgn((int)vp_str_compare_c8(&a, b.f0.f0, 0)) == ocs(sa, an, sb, z), "compare(const char8_t*) agrees");
  ASSERT((vp_str_eq_c8(&a, b.f0.f0) != 0) == (ocs(sa, an, sb, z) == 0), "operator==(const char8_t*) agrees");
  ASSERT((vp_str_ne_cstr(&a, b.f0.f0) != 0) == (ocs(sa, an, sb, z) != 0), "operator!=(const char*) agrees");
  ASSERT(sgn((int)vp_str_compare_cstr(&a, (uint8_t *)0, 0)) == (an ? 1 : 0), "compare(nullptr) treats null as empty");
  /* case-insensitive family */
  int ci = (int)vp_str_compare(&a, &b, 1), cj = (int)vp_str_compare(&b, &a, 1);
  ASSERT((ci == 0) == feq(sa, an, sb, bn), "case-insensitive compare is zero exactly for operands equal after folding ASCII letters");
  ASSERT(sgn(ci) == -sgn(cj), "case-insensitive compare is antisymmetric");
  ASSERT(sgn((int)vp_str_compare_i(&a, &b)) == sgn(ci), "compare_i agrees with compare(case_insensitive)");
  ASSERT(sgn((int)vp_str_compare_i_cstr(&a, b.f0.f0)) == sgn((int)vp_str_compare_cstr(&a, b.f0.f0, 1)), "compare_i(const char*) agrees");
  ASSERT((vp_str_compare_cstr(&a, b.f0.f0, 1) == 0) == feq(sa, an, sb, z), "case-insensitive compare(const char*) is zero exactly for folded-equal operands");
  { int cn = (int)vp_str_compare_n(&a, &b, n, 1);
    ASSERT((cn == 0) == feq(sa, umin(an, n), sb, umin(bn, n)), "case-insensitive compare_n is zero exactly for folded-equal n-byte prefixes");
    ASSERT(sgn((int)vp_str_compare_ni(&a, &b, n)) == sgn(cn), "compare_ni agrees with compare_n(case_insensitive)");
    ASSERT(sgn((int)vp_str_compare_ni_cstr(&a, b.f0.f0, n)) == sgn((int)vp_str_compare_n_cstr(&a, b.f0.f0, n, 1)), "compare_ni(const char*) agrees"); }
  ASSERT((vp_str_less_i(&a, &b) != 0) == (ci < 0), "less_i agrees with compare_i");
  ASSERT((vp_str_equal_i(&a, &b) != 0) == (ci == 0), "equal_i agrees with compare_i");
  if (o == 0) ASSERT(ci == 0, "equal strings are also case-insensitively equal");
  for (uint64_t i = 0; i < N; i++) { if (i < an) ASSERT(a.f0.f0[i] == sa[i], "left operand unchanged"); if (i < bn) ASSERT(b.f0.f0[i] == sb[i], "right operand unchanged"); }
  ASSERT(!vp_exc_pending, "comparison does not throw");
  S_destroy(&a.f0); S_destroy(&b.f0);
  REACH("end of harness");
  return 0;
}
#elif OP == 4
int vp_harness_main(void) {
  str_t a, b, c; uint8_t sa[N + 1], sb[N + 1], sc[N + 1];
  S_mk(&a.f0, sa); S_mk(&b.f0, sb); S_mk(&c.f0, sc);
  uint32_t cs = vp_in_u32(); ASSUME(cs <= 1);
  int ab = (int)vp_str_compare(&a, &b, cs), bc = (int)vp_str_compare(&b, &c, cs), ac = (int)vp_str_compare(&a, &c, cs);
  if (ab <= 0 && bc <= 0) ASSERT(ac <= 0, "compare is transitive: a<=b and b<=c imply a<=c");
  if (ab < 0 && bc <= 0) ASSERT(ac < 0, "compare is transitive (strict): a<b and b<=c imply a<c");
  if (ab == 0 && bc == 0) ASSERT(ac == 0, "equivalence is transitive");
  S_destroy(&a.f0); S_destroy(&b.f0); S_destroy(&c.f0);
  REACH("end of harness");
  return 0;
}
#elif OP == 5
int vp_harness_main(void) {
  /* b holds the same bytes as a (built from the same symbolic values, in possibly different storage mode is not possible for equal
   * sizes, so equality of content is what is varied); d = a with an arbitrary subset of its ASCII letters case-flipped */
  str_t a, b, d, up, lo, up2; uint8_t sa[N + 1], sd[N + 1];
  S_mk(&a.f0, sa);
  uint64_t an = a.f0.f1;
  vp_str_copy_ctor(&b, &a);
  for (uint64_t i = 0; i < N; i++) { uint8_t f = vp_in_u8(); uint8_t c = sa[i]; int letter = (c >= 'A' && c <= 'Z') || (c >= 'a' && c <= 'z'); sd[i] = (letter && (f & 1)) ? (uint8_t)(c ^ 0x20) : c; }
  { uint8_t *p = (uint8_t *)vp_exact(an); for (uint64_t i = 0; i < N; i++) if (i < an) p[i] = sd[i]; vp_str_from_validated(&d, p, an); }
#ifdef WITH_HASH
  ASSERT(vp_str_hash(&a) == vp_str_hash(&b), "equal strings have equal hash values");
  ASSERT(vp_str_std_hash(&a) == vp_str_hash(&a), "std::hash<ST::string> is ST::hash");
  ASSERT(vp_str_hash_i(&a) == vp_str_hash_i(&d), "case-insensitively equal strings have equal hash_i values");
#endif
  ASSERT(vp_str_compare(&a, &d, 1) == 0, "strings differing only in ASCII letter case compare equal case-insensitively");
  vp_str_to_upper(&up, &a); vp_str_to_lower(&lo, &a);
  ASSERT(!vp_exc_pending, "no exception");
  ASSERT(S_inv(&up.f0) && S_inv(&lo.f0) && up.f0.f1 == an && lo.f0.f1 == an, "to_upper/to_lower return valid strings of the same size");
  for (uint64_t i = 0; i < N; i++) if (i < an) {
    uint8_t c = sa[i];
    ASSERT(up.f0.f0[i] == ((c >= 'a' && c <= 'z') ? (uint8_t)(c - 32) : c), "to_upper changes nothing but ASCII a-z");
    ASSERT(lo.f0.f0[i] == ((c >= 'A' && c <= 'Z') ? (uint8_t)(c + 32) : c), "to_lower changes nothing but ASCII A-Z");
    ASSERT(a.f0.f0[i] == c, "source unchanged");
  }
  vp_str_to_upper(&up2, &up);
  ASSERT(vp_str_compare(&up2, &up, 0) == 0, "to_upper is idempotent");
  vp_str_dtor(&up2); vp_str_dtor(&up); vp_str_dtor(&lo); vp_str_dtor(&d); vp_str_dtor(&b); S_destroy(&a.f0);
  ASSERT(vp_live_blocks == 0, "no leak");
  REACH("end of harness");
  return 0;
}
#endif
#endif

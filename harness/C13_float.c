/* C13_float.c -- floating-point text: what the library adds around the C library's rendering.
 * CBMC: snprintf / strtod / strtof are contract stubs (rt/model_snprintf.c, rt/model_strtostub.c): an arbitrary rendering R of
 * arbitrary length L (up to the documented maximum of the conversion) -- so "however long that rendering is" is a quantifier over L.
 * Native replay: the real C library produces R, so a counterexample is replayed as the library's output vs printf on the same platform.
 *  -DOP=1 ST::format_type(double|float) with a symbolic format_spec  (-DFLT=0|1 -DW=<max width> -DLMAX)
 *  -DOP=2 from_double / from_float with an arbitrary format letter   (-DFLT -DLMAX)
 *  -DOP=3 string_stream << double|float                              (-DFLT -DLMAX)
 *  -DOP=4 to_double / to_float with the strtod/strtof contract stub  (-DFLT) */
#include "vp_harness.h"
#include "k.h"
#ifndef LMAX
#define LMAX 80
#endif
#ifndef W
#define W 8
#endif
#define SINK_EVENTS 4
#define SINK_COPY (LMAX + 1)
#include "sink.h"
void SINKFN(vp_sink_spec)(void *spec) { (void)spec; }
typedef vp_string_t str_t;
VP_BUF_HELPERS(S, __typeof__(((str_t *)0)->f0), uint8_t, VP_SSO, (LMAX + 1))
#ifdef __CPROVER__
extern uint8_t vp_render[]; extern uint64_t vp_render_len; extern uint8_t vp_snp_fmt[8][16]; extern double vp_snp_val[8]; extern int vp_snp_calls;
#else
#include <stdio.h>
static uint8_t vp_render[LMAX + 400]; static uint64_t vp_render_len;
#endif
static double in_double(void) { uint64_t b = vp_in_u64(); return *(double *)&b; }
static float in_float(void) { uint32_t b = vp_in_u32(); return *(float *)&b; }

/* the printf format the property prescribes: %[+][.P]{g,f,e,E} */
static int ref_printf_format(uint8_t *f, int plus, int32_t prec, int letter) {
  int p = 0; f[p++] = '%'; if (plus) f[p++] = '+';
  if (prec >= 0) { f[p++] = '.'; uint8_t d[12]; int nd = 0; uint32_t v = (uint32_t)prec; do { d[nd++] = (uint8_t)('0' + v % 10); v /= 10; } while (v && nd < 11); while (nd) f[p++] = d[--nd]; }
  f[p++] = (uint8_t)letter; f[p] = 0; return p;
}
#ifndef __CPROVER__
/* Native replay: the solver's counterexample fixes the rendering LENGTH L (the stub's free choice); the real printf produces a rendering of
 * that length only for suitable (value, precision).  Search a small directed space for such a pair, so that the counterexample becomes an
 * ordinary call of the real library: returns 1 and updates *v / *prec when found. */
static int concretise(uint64_t L, int plus, int letter, int use_prec, double *v, int32_t *prec) {
  static const double cand[] = { 1.0, -1.0, 1e10, -1e10, 1e100, -1e100, 1e300, -1.7976931348623157e308, 1.7976931348623157e308, 123456.789, 0.0, 1e-5, 3.4028234663852886e38, -3.4028234663852886e38, 1e37, -1e37, 1e20, -1e20 };
  char f[24], buf[800];
  for (unsigned c = 0; c < sizeof cand / sizeof cand[0]; c++)
    for (int32_t p = use_prec ? 0 : -1; p <= (use_prec ? 400 : -1); p++) {
      int n = 0; f[n++] = '%'; if (plus) f[n++] = '+'; if (p >= 0) n += snprintf(f + n, 12, ".%d", p); f[n++] = (char)letter; f[n] = 0;
      if ((uint64_t)snprintf(buf, sizeof buf, f, cand[c]) == L) { *v = cand[c]; if (prec) *prec = p; return 1; }
    }
  return 0;
}
#endif
static uint64_t native_L;
static void set_rendering(const uint8_t *fmt, double v, uint64_t maxlen) {
#ifdef __CPROVER__
  (void)fmt; (void)v;
  vp_render_len = vp_in_u64(); ASSUME(vp_render_len >= 1 && vp_render_len <= maxlen);
#ifdef LFIX
  ASSUME(vp_render_len == LFIX);
#endif
#ifdef LFIX
  for (uint64_t i = 0; i < LMAX; i++) vp_render[i] = (uint8_t)('0' + i % 10);   /* extreme lengths: concrete content (only the length matters to the buffer logic) */
#else
  for (uint64_t i = 0; i < LMAX; i++) { vp_render[i] = vp_in_u8(); ASSUME(vp_render[i] != 0 && vp_render[i] < 0x80); }   /* printf renders numbers in ASCII */
#endif
#else
  (void)maxlen; (void)fmt; (void)v; native_L = vp_in_u64(); for (uint64_t i = 0; i < LMAX; i++) (void)vp_in_u8();
#endif
}
static void check_printf_call(const uint8_t *expf, double v) {
#ifdef __CPROVER__
  ASSERT(vp_snp_calls >= 1, "the C library renderer is called");
  for (int k = 0; k < 2; k++) if (k < vp_snp_calls) {
    for (int i = 0; i < 16; i++) { ASSERT(vp_snp_fmt[k][i] == expf[i], "printf format handed to the C library is exactly %[+][.P]{g,f,e,E}"); if (!expf[i]) break; }
    ASSERT(*(uint64_t *)&vp_snp_val[k] == *(uint64_t *)&v, "value handed to the C library is bit-identical");
  }
#else
  (void)expf; (void)v;
#endif
}

int vp_harness_main(void) {
#if FLT
  float fv = in_float(); double v = (double)fv;
#else
  double v = in_double();
#endif
#if OP == 1
  vp_format_spec_t s;
  s.f0 = vp_in_u32(); ASSUME((int32_t)s.f0 <= W);
  s.f1 = vp_in_u32(); ASSUME((int32_t)s.f1 <= PMAX);       /* precision: every negative value and 0..PMAX */
  s.f2 = vp_in_u32(); s.f3 = vp_in_u32(); ASSUME(s.f3 <= 2); s.f4 = vp_in_u32(); ASSUME(s.f4 <= 6); s.f5 = vp_in_u32(); ASSUME(s.f5 <= 3);
  s.f6 = vp_in_u8(); s.f7 = vp_in_u8(); s.f8 = vp_in_u8(); s.f9 = vp_in_u8(); ASSUME(s.f7 <= 1 && s.f8 <= 1 && s.f9 <= 1);
  uint8_t expf[20]; ref_printf_format(expf, s.f7, (int32_t)s.f1, s.f5 == 2 ? 'e' : s.f5 == 3 ? 'E' : s.f5 == 1 ? 'f' : 'g');
  set_rendering(expf, v, LMAX);
#ifndef __CPROVER__
  { int32_t pr = (int32_t)s.f1; int letter = s.f5 == 2 ? 'e' : s.f5 == 3 ? 'E' : s.f5 == 1 ? 'f' : 'g';
    if (concretise(native_L, s.f7, letter, 1, &v, &pr)) { s.f1 = (uint32_t)pr; }
    ref_printf_format(expf, s.f7, (int32_t)s.f1, letter);
#if FLT
    fv = (float)v; v = (double)fv;
#endif
    vp_render_len = (uint64_t)snprintf((char *)vp_render, sizeof vp_render, (const char *)expf, v); }
#endif
#if FLT
  vp_format_type_float(&s, fv);
#else
  vp_format_type_double(&s, v);
#endif
  ASSERT(!vp_exc_pending, "floating-point formatting does not throw");
  check_printf_call(expf, v);
  { uint8_t exp[LMAX + W + 2], got[LMAX + W + 2]; uint64_t p = 0, L = vp_render_len;
    uint8_t pad = s.f6 ? s.f6 : ' '; int64_t w = (int32_t)s.f0; uint64_t pc = w > (int64_t)L ? (uint64_t)(w - (int64_t)L) : 0;
    if (s.f3 == 1) { for (uint64_t i = 0; i < LMAX; i++) if (i < L) exp[p++] = vp_render[i]; for (uint64_t i = 0; i < W; i++) if (i < pc) exp[p++] = pad; }
    else { for (uint64_t i = 0; i < W; i++) if (i < pc) exp[p++] = pad; for (uint64_t i = 0; i < LMAX; i++) if (i < L) exp[p++] = vp_render[i]; }
    uint64_t gl = sink_flatten(got, LMAX + W);
    ASSERT(sink_total == p, "output = the C library rendering, extended (never truncated) to the field width, however long the rendering is");
    for (uint64_t i = 0; i < LMAX + W; i++) if (i < p && i < gl) ASSERT(got[i] == exp[i], "output byte = rendering / padding byte");
    if (L >= 64) REACH("rendering longer than the 64-byte stack buffer"); }
#elif OP == 2 || OP == 3
#ifdef LFIX
  uint8_t letter = 'f';
#else
  uint8_t letter = OP == 3 ? 'g' : vp_in_u8();
#endif
  int valid = letter == 'e' || letter == 'f' || letter == 'g' || letter == 'E' || letter == 'F' || letter == 'G';
  uint8_t expf[4] = { '%', letter, 0, 0 };
  /* documented maximum of the conversion: fixed notation prints sign + (max_exponent10 + 1) integer digits + '.' + 6 decimals */
  uint64_t maxlen = (letter == 'f' || letter == 'F') ? (FLT ? 47 : 317) : 24;
  if (maxlen > LMAX) maxlen = LMAX;
  if (valid) set_rendering(expf, v, maxlen); else { set_rendering((const uint8_t *)"%g", v, 24); }
#ifndef __CPROVER__
  if (valid) { concretise(native_L, 0, letter, 0, &v, 0);
#if FLT
    fv = (float)v; v = (double)fv;
#endif
    vp_render_len = (uint64_t)snprintf((char *)vp_render, sizeof vp_render, (const char *)expf, v); }
#endif
  str_t out;
#if OP == 2
#if FLT
  vp_from_float(&out, fv, letter);
#else
  vp_from_double(&out, v, letter);
#endif
#else
#if FLT
  vp_ss_float(&out, fv);
#else
  vp_ss_double(&out, v);
#endif
#endif
  if (vp_exc_pending) {
    ASSERT(vp_exc_kind == VP_EXC_BAD_FORMAT && !valid, "only an unsupported format letter is rejected, with ST::bad_format");
    vp_clear_exception();
#if OP == 2 && !defined(LFIX)
    REACH("bad_format path");
#endif
  } else {
    ASSERT(valid, "letters other than e f g E F G are rejected");
    check_printf_call(expf, v);
    ASSERT(S_inv(&out.f0) && out.f0.f1 == vp_render_len, "result is a valid string of exactly the rendering's length");
    for (uint64_t i = 0; i < LMAX; i++) if (i < vp_render_len && i < out.f0.f1) ASSERT(out.f0.f0[i] == vp_render[i], "result = the C library rendering");
#if !defined(LFIX) || LFIX == 317
    if (vp_render_len == maxlen) REACH("longest rendering of the conversion");
#endif
    vp_str_dtor(&out);
  }
  ASSERT(vp_live_blocks == 0, "no leak");
#elif OP == 4
  { extern double vp_stub_dval; extern float vp_stub_fval; extern uint64_t vp_stub_end; extern int vp_stub_calls; extern uint8_t *vp_stub_nptr_seen;
    str_t s; uint8_t t[LMAX + 3]; S_mk(&s.f0, t); uint64_t n = s.f0.f1; uint64_t endpos; uint64_t expbits;
#ifdef __CPROVER__
    vp_stub_end = vp_in_u64(); endpos = vp_stub_end;
#if FLT
    vp_stub_fval = fv; { float x = fv; expbits = *(uint32_t *)&x; }
#else
    vp_stub_dval = v; expbits = *(uint64_t *)&v;
#endif
#else
    { extern double strtod(const char *, char **); extern float strtof(const char *, char **); char *e = 0; (void)vp_in_u64();
#if FLT
      float x = strtof((const char *)s.f0.f0, &e); expbits = *(uint32_t *)&x;
#else
      double x = strtod((const char *)s.f0.f0, &e); expbits = *(uint64_t *)&x;
#endif
      endpos = (uint64_t)(e - (char *)s.f0.f0); }
#endif
    int32_t fl = 99; uint64_t gotbits;
#if FLT
    { float g = vp_to_float(&s, &fl); gotbits = *(uint32_t *)&g; }
#else
    { double g = vp_to_double(&s, &fl); gotbits = *(uint64_t *)&g; }
#endif
    if (n == 0) ASSERT(fl == 2 && gotbits == 0, "empty string: full_match without ok, value +0");
    else {
      ASSERT(gotbits == expbits, "value = what strtod/strtof returns on the same text (bit-identical)");
      ASSERT(((fl & 1) != 0) == (endpos != 0), "ok <=> at least one character was consumed");
      ASSERT(((fl & 2) != 0) == (endpos == n), "full_match <=> all characters were consumed");
      if (endpos > 0 && endpos < n) REACH("partial match");
    }
    S_destroy(&s.f0);
#ifndef __CPROVER__
    /* native side: the solver's free choice here is a libc RESULT (the stub's value); its text is short, and on short text every correctly rounded parser
     * agrees.  Directed concretisation: texts on which parsers of different precision disagree (just off the midpoint of two adjacent floats / doubles,
     * above the largest finite float), against the real strtof / strtod */
    { static const char *const hard[] = { "1.00000005960464477539062500001", "0.500000029802322387695312500001", "16777217.0000001", "3.4028235677973366e38",
                                          "1.1754942106924411e-38", "9007199254740993.0000000000000001", "0x1.000001p0", "1e23", 0 };
      extern double strtod(const char *, char **); extern float strtof(const char *, char **); extern unsigned long strlen(const char *);
      extern void vp_str_from_validated(void *, const uint8_t *, uint64_t);     /* exported by the shim; not a root of the symbolic run */
      for (int k = 0; hard[k]; k++) {
        str_t h; int32_t hf = 99; uint64_t eb, gb; char *e = 0;
        vp_str_from_validated(&h, (const uint8_t *)hard[k], strlen(hard[k]));
#if FLT
        { float x = strtof(hard[k], &e); eb = *(uint32_t *)&x; float g = vp_to_float(&h, &hf); gb = *(uint32_t *)&g; }
#else
        { double x = strtod(hard[k], &e); eb = *(uint64_t *)&x; double g = vp_to_double(&h, &hf); gb = *(uint64_t *)&g; }
#endif
        ASSERT(gb == eb, "value = what strtod/strtof returns on the same text (bit-identical)");
        vp_str_dtor(&h);
      } }
#endif
  }
#endif
  REACH("end of harness");
  return 0;
}

/* C01_routes.c -- the ST::string routes of every conversion yield the standard encoding (and therefore agree with the free functions of C01 (2)).
 * Text: SHAPE_K arbitrary Unicode scalars of a concrete shape (scalar_seq.h).
 *  -DOP=1 INTO ST::string from UTF-16 (-DROUTE: 1 from_utf16, 2 ctor(ptr,n), 3 ctor(utf16_buffer), 4 operator=(utf16_buffer), 5 ctor(u16string_view), 6 operator"" _st)
 *  -DOP=2 INTO ST::string from UTF-32 (-DROUTE: 1 from_utf32, 2 ctor(ptr,n), 3 ctor(utf32_buffer), 4 operator=(utf32_buffer), 6 operator"" _st, 7 from_wchar)
 *  -DOP=3 OUT OF ST::string: to_utf8 / to_utf16 / to_utf32 / to_wchar / to_latin_1 on the standard UTF-8 text
 *  -DOP=5 UTF-8 routes INTO ST::string on well-formed text: the bytes are taken unchanged in EVERY validation mode (-DROUTE: 1 from_utf8, 2 ctor(char_buffer), 3 set(char_buffer&&))
 *  -DOP=6 the repairer behind substitute_invalid (cleanup_utf8) and the validator behind check_validity leave well-formed text alone (kernel level)
 *  -DOP=4 from_latin_1 then to_latin_1: identity on arbitrary bytes; the UTF-8 in between is the code-point-wise widening */
#include "vp_harness.h"
#include "k.h"
#define N_ (4 * SHAPE_K + 1)
#include "scalar_seq.h"
typedef vp_string_t str_t;
typedef __typeof__(((str_t *)0)->f0) cbuf_t;
VP_BUF_HELPERS(S, cbuf_t, uint8_t, VP_SSO, N_)
static uint64_t std_u8(const uint32_t *v, int k, uint8_t *o) {
  uint64_t p = 0;
  for (int i = 0; i < k; i++) { uint32_t c = v[i];
    if (c <= 0x7F) o[p++] = (uint8_t)c; else if (c <= 0x7FF) { o[p++] = (uint8_t)(0xC0 + c / 64u); o[p++] = (uint8_t)(0x80 + c % 64u); }
    else if (c <= 0xFFFF) { o[p++] = (uint8_t)(0xE0 + c / 4096u); o[p++] = (uint8_t)(0x80 + (c / 64u) % 64u); o[p++] = (uint8_t)(0x80 + c % 64u); }
    else { o[p++] = (uint8_t)(0xF0 + c / 262144u); o[p++] = (uint8_t)(0x80 + (c / 4096u) % 64u); o[p++] = (uint8_t)(0x80 + (c / 64u) % 64u); o[p++] = (uint8_t)(0x80 + c % 64u); } }
  return p;
}
int vp_harness_main(void) {
  uint32_t vals[SHAPE_K ? SHAPE_K : 1]; uint8_t e8[N_ + 1]; uint64_t n8;
#ifdef MODE
  uint32_t mode = MODE;
#else
  uint32_t mode = vp_in_u32(); ASSUME(mode <= 2);
#endif
  str_t s; int have_s = 0;
#if OP == 1
  uint16_t sh[2 * SHAPE_K + 1]; uint64_t n; SHAPE_ENCODE(2, uint16_t, sh, n, vals);
  uint16_t *p = (uint16_t *)vp_exact(n * 2); for (uint64_t i = 0; i < 2 * SHAPE_K; i++) if (i < n) p[i] = sh[i];
#if ROUTE == 1
  vp_from_utf16(&s, p, n, mode);
#elif ROUTE == 2
  vp_ctor_utf16(&s, p, n, mode);
#elif ROUTE == 3 || ROUTE == 4
#if ROUTE == 3
  { T_vp_ctor_u16buf_a1 b;
#else
  { T_vp_assign_u16buf_a1 b;
#endif
    b.f1 = n; if (n >= LOCAL_LEN(2)) { b.f0 = (uint16_t *)vpx__Znam((n + 1) * 2); } else b.f0 = b.f2.a; for (uint64_t i = 0; i < 2 * SHAPE_K; i++) if (i < n) b.f0[i] = sh[i]; b.f0[n] = 0;
#if ROUTE == 3
    vp_ctor_u16buf(&s, &b, mode);
#else
    { uint8_t *e = (uint8_t *)vp_exact(0); vp_str_from_validated(&s, e, 0); vp_assign_u16buf(&s, &b); }
#endif
    vp_u16buf_dtor(&b); }
#elif ROUTE == 5
  vp_ctor_u16sv(&s, p, n, mode);
#elif ROUTE == 7
  vp_from_std_sv16(&s, p, n, mode);
#elif ROUTE == 8
  vp_from_std_str16(&s, p, n, mode);
#else
  vp_lit_u16(&s, p, n);
#endif
  have_s = 1;
#elif OP == 2
  uint32_t sh[SHAPE_K + 1]; uint64_t n; SHAPE_ENCODE(3, uint32_t, sh, n, vals);
  uint32_t *p = (uint32_t *)vp_exact(n * 4); for (uint64_t i = 0; i < SHAPE_K; i++) if (i < n) p[i] = sh[i];
#if ROUTE == 1
  vp_from_utf32(&s, p, n, mode);
#elif ROUTE == 2
  vp_ctor_utf32(&s, p, n, mode);
#elif ROUTE == 3 || ROUTE == 4
#if ROUTE == 3
  { T_vp_ctor_u32buf_a1 b;
#else
  { T_vp_assign_u32buf_a1 b;
#endif
    b.f1 = n; if (n >= LOCAL_LEN(4)) { b.f0 = (uint32_t *)vpx__Znam((n + 1) * 4); } else b.f0 = b.f2.a; for (uint64_t i = 0; i < SHAPE_K; i++) if (i < n) b.f0[i] = sh[i]; b.f0[n] = 0;
#if ROUTE == 3
    vp_ctor_u32buf(&s, &b, mode);
#else
    { uint8_t *e = (uint8_t *)vp_exact(0); vp_str_from_validated(&s, e, 0); vp_assign_u32buf(&s, &b); }
#endif
    vp_u32buf_dtor(&b); }
#elif ROUTE == 6
  vp_lit_u32(&s, p, n);
#elif ROUTE == 8
  vp_from_std_sv32(&s, p, n, mode);
#elif ROUTE == 9
  vp_from_std_str32(&s, p, n, mode);
#elif ROUTE == 10
  vp_from_std_wsv(&s, p, n, mode);
#elif ROUTE == 11
  vp_from_std_wstr(&s, p, n, mode);
#else
  vp_from_wchar(&s, p, n, mode);
#endif
  have_s = 1;
#endif
#if OP == 1 || OP == 2
  n8 = std_u8(vals, SHAPE_K, e8);
  ASSERT(!vp_exc_pending, "well-formed text converts without an exception in every validation mode");
  ASSERT(S_inv(&s.f0) && s.f0.f1 == n8, "the string holds the standard UTF-8 encoding: size");
  for (uint64_t i = 0; i < N_; i++) if (i < n8 && i < s.f0.f1) ASSERT(s.f0.f0[i] == e8[i], "the string holds the standard UTF-8 encoding: bytes");
#elif OP == 3
  { uint8_t sh[4 * SHAPE_K + 1]; uint64_t n; SHAPE_ENCODE(1, uint8_t, sh, n, vals);
    uint8_t *p = (uint8_t *)vp_exact(n); for (uint64_t i = 0; i < 4 * SHAPE_K; i++) if (i < n) p[i] = sh[i];
    vp_str_from_validated(&s, p, n); have_s = 1;
    { cbuf_t o; vp_to_utf8(&o, &s); ASSERT(S_inv(&o) && o.f1 == n, "to_utf8 returns the bytes"); for (uint64_t i = 0; i < 4 * SHAPE_K; i++) if (i < n) ASSERT(o.f0[i] == sh[i], "to_utf8 bytes"); vp_cbuf_dtor(&o); }
    { T_vp_to_utf16_a0 o; vp_to_utf16(&o, &s); uint64_t q = 0; ASSERT(!vp_exc_pending, "to_utf16 does not throw");
      for (int i = 0; i < SHAPE_K; i++) { uint32_t c = vals[i]; if (c <= 0xFFFF) { ASSERT(o.f0[q] == (uint16_t)c, "to_utf16 unit"); q++; } else { uint32_t w = c - 0x10000u; ASSERT(o.f0[q] == (uint16_t)(0xD800 + w / 1024u) && o.f0[q + 1] == (uint16_t)(0xDC00 + w % 1024u), "to_utf16 surrogate pair"); q += 2; } }
      ASSERT(o.f1 == q && o.f0[q] == 0, "to_utf16 size and terminator"); vp_u16buf_dtor(&o); }
    { T_vp_to_utf32_a0 o; vp_to_utf32(&o, &s); ASSERT(!vp_exc_pending && o.f1 == SHAPE_K && o.f0[SHAPE_K] == 0, "to_utf32 size and terminator"); for (int i = 0; i < SHAPE_K; i++) ASSERT(o.f0[i] == vals[i], "to_utf32 unit"); vp_u32buf_dtor(&o); }
    { T_vp_to_wchar_a0 o; vp_to_wchar(&o, &s); ASSERT(!vp_exc_pending && o.f1 == SHAPE_K, "to_wchar size"); for (int i = 0; i < SHAPE_K; i++) ASSERT(o.f0[i] == vals[i], "to_wchar unit"); vp_wcbuf_dtor(&o); }
#ifdef STL_OUT
    /* the STL members: the same units in a std::basic_string (copied out by the shim) */
    { uint8_t o[4 * SHAPE_K + 1]; uint64_t q = vp_to_std_string(&s, o, 4 * SHAPE_K); ASSERT(!vp_exc_pending && q == n, "to_std_string size"); for (uint64_t i = 0; i < 4 * SHAPE_K; i++) if (i < n) ASSERT(o[i] == sh[i], "to_std_string bytes"); }
    { uint8_t o[4 * SHAPE_K + 1]; uint64_t q = vp_to_std_u8string(&s, o, 4 * SHAPE_K); ASSERT(!vp_exc_pending && q == n, "to_std_u8string size"); for (uint64_t i = 0; i < 4 * SHAPE_K; i++) if (i < n) ASSERT(o[i] == sh[i], "to_std_u8string bytes"); }
    { uint16_t o[2 * SHAPE_K + 1]; uint64_t q = vp_to_std_u16string(&s, o, 2 * SHAPE_K), k = 0; ASSERT(!vp_exc_pending, "to_std_u16string does not throw");
      for (int i = 0; i < SHAPE_K; i++) { uint32_t c = vals[i]; if (c <= 0xFFFF) { ASSERT(o[k] == (uint16_t)c, "to_std_u16string unit"); k++; } else { uint32_t w = c - 0x10000u; ASSERT(o[k] == (uint16_t)(0xD800 + w / 1024u) && o[k + 1] == (uint16_t)(0xDC00 + w % 1024u), "to_std_u16string surrogate pair"); k += 2; } }
      ASSERT(q == k, "to_std_u16string size"); }
    { uint32_t o[SHAPE_K + 1]; uint64_t q = vp_to_std_u32string(&s, o, SHAPE_K); ASSERT(!vp_exc_pending && q == SHAPE_K, "to_std_u32string size"); for (int i = 0; i < SHAPE_K; i++) ASSERT(o[i] == vals[i], "to_std_u32string unit"); }
    { uint32_t o[SHAPE_K + 1]; uint64_t q = vp_to_std_wstring(&s, o, SHAPE_K); ASSERT(!vp_exc_pending && q == SHAPE_K, "to_std_wstring size"); for (int i = 0; i < SHAPE_K; i++) ASSERT(o[i] == vals[i], "to_std_wstring unit"); }
    { uint8_t o[SHAPE_K + 1]; uint64_t q = vp_to_std_string_l1(&s, o, SHAPE_K); ASSERT(!vp_exc_pending && q == SHAPE_K, "to_std_string(false) size"); for (int i = 0; i < SHAPE_K; i++) ASSERT(o[i] == (vals[i] < 0x100 ? (uint8_t)vals[i] : '?'), "to_std_string(false): Latin-1 byte, or '?' above U+00FF"); }
#endif
    { cbuf_t o; vp_to_latin_1(&o, &s, 1); ASSERT(!vp_exc_pending && o.f1 == SHAPE_K, "to_latin_1 size"); for (int i = 0; i < SHAPE_K; i++) ASSERT(o.f0[i] == (vals[i] < 0x100 ? (uint8_t)vals[i] : '?'), "to_latin_1: the byte, or '?' for a value above U+00FF"); vp_cbuf_dtor(&o); } }
#elif OP == 5
  { uint8_t sh[4 * SHAPE_K + 1]; uint64_t n; SHAPE_ENCODE(1, uint8_t, sh, n, vals);
    uint8_t *p = (uint8_t *)vp_exact(n); for (uint64_t i = 0; i < 4 * SHAPE_K; i++) if (i < n) p[i] = sh[i];
#if ROUTE == 1
    vp_from_utf8(&s, p, n, mode);
#elif ROUTE == 4
    vp_from_std_sv8(&s, p, n, mode);
#elif ROUTE == 5
    vp_from_std_str8(&s, p, n, mode);
#elif ROUTE == 6
    vp_ctor_u8ptr(&s, p, n, mode);
#elif ROUTE == 7
    vp_from_utf8_c8(&s, p, n, mode);
#elif ROUTE == 8
    vp_from_std_u8sv(&s, p, n, mode);
#elif ROUTE == 9
    vp_from_std_u8str(&s, p, n, mode);
#else
    { cbuf_t b; uint8_t tmp[N_ + 1]; S_mk_n(&b, tmp, -1, n); for (uint64_t i = 0; i < 4 * SHAPE_K; i++) if (i < n) b.f0[i] = sh[i];
#if ROUTE == 2
      vp_ctor_cbuf(&s, &b, mode);
#else
      { uint8_t *e = (uint8_t *)vp_exact(0); vp_str_from_validated(&s, e, 0); vp_set_cbuf_move(&s, &b, mode); }
#endif
      vp_cbuf_dtor(&b); }
#endif
    have_s = 1;
    ASSERT(!vp_exc_pending, "well-formed UTF-8 is accepted in every validation mode");
    ASSERT(S_inv(&s.f0) && s.f0.f1 == n, "well-formed UTF-8 is taken unchanged in every validation mode: size");
    for (uint64_t i = 0; i < 4 * SHAPE_K; i++) if (i < n && i < s.f0.f1) ASSERT(s.f0.f0[i] == sh[i], "well-formed UTF-8 is taken unchanged in every validation mode: bytes"); }
#elif OP == 6
  { uint8_t sh[4 * SHAPE_K + 1]; uint64_t n; SHAPE_ENCODE(1, uint8_t, sh, n, vals);
    uint8_t *p = (uint8_t *)vp_exact(n); for (uint64_t i = 0; i < 4 * SHAPE_K; i++) if (i < n) p[i] = sh[i];
    ASSERT(vp_validate_utf8(p, n) == 0, "check_validity's validator accepts well-formed text");
    ASSERT(vp_cleanup_utf8((uint8_t *)0, p, n) == n, "substitute_invalid's repairer measures well-formed text at its own size");
    { uint8_t *o = (uint8_t *)vp_exact(n); ASSERT(vp_cleanup_utf8(o, p, n) == n, "the repairer writes exactly the input size"); for (uint64_t i = 0; i < 4 * SHAPE_K; i++) if (i < n) ASSERT(o[i] == sh[i], "the repairer leaves well-formed text unchanged (every character, also the last one)"); } }
#elif OP == 4
  { uint8_t sh[SHAPE_K + 1]; uint8_t *p = (uint8_t *)vp_exact(SHAPE_K); for (int i = 0; i < SHAPE_K; i++) { sh[i] = vp_in_u8(); p[i] = sh[i]; vals[i] = sh[i]; }
    vp_from_latin_1(&s, p, SHAPE_K); have_s = 1;
    n8 = std_u8(vals, SHAPE_K, e8);
    ASSERT(!vp_exc_pending && S_inv(&s.f0) && s.f0.f1 == n8, "from_latin_1: size of the code-point-wise widening");
    for (uint64_t i = 0; i < N_; i++) if (i < n8) ASSERT(s.f0.f0[i] == e8[i], "from_latin_1: standard UTF-8 of U+0000..U+00FF");
    { cbuf_t o; vp_to_latin_1(&o, &s, 0); ASSERT(!vp_exc_pending && o.f1 == SHAPE_K, "Latin-1 round trip: size"); for (int i = 0; i < SHAPE_K; i++) ASSERT(o.f0[i] == sh[i], "every byte string taken as Latin-1 converts back unchanged"); vp_cbuf_dtor(&o); } }
#endif
  if (have_s) vp_str_dtor(&s);
  ASSERT(vp_live_blocks == 0, "no leak");
  REACH("end of harness");
  return 0;
}

/* conv.c -- one public conversion (pointer+length form) on ARBITRARY source units vs the reference transcoder.
 * Serves C03 (total, memory-safe, exact size), C02 (accept / reject / repair per mode) and C01 (standard encoding
 * of well-formed input; with -DSCALARS=K the source is the standard encoding of K arbitrary Unicode scalars).
 *   -DSRC=<code> -DDST=<code>  (1 UTF-8, 2 UTF-16, 3 UTF-32, 4 Latin-1, 5 wchar_t[32-bit])
 *   -DSRCN=<u8|u16|u32|l1|wc> -DDSTN=<...>   tokens used to form the shim name vp_conv_<SRCN>_<DSTN>
 *   -DN=<max source units>  [-DMODE=<0|1|2>]  [-DSCALARS=<K>]
 * The source lives in an exactly-sized heap object, so any read outside [p, p+n) is a bounds violation. */
#include "vp_harness.h"
#include "k.h"
#include "ref_utf.h"
#ifdef SCALARS
#include "scalar_seq.h"
#endif

#define U8 1
#define U16 2
#define U32 3
#define L1 4
#define WC 5
#define CAT_(a, b) a##b
#define CAT(a, b) CAT_(a, b)
#define CAT4(a, b, c, d) CAT(CAT(a, b), CAT(c, d))
#define CONV CAT4(vp_conv_, SRCN, _, DSTN)

#if SRC == U8 || SRC == L1
typedef uint8_t src_t;
#define IN_UNIT() vp_in_u8()
#elif SRC == U16
typedef uint16_t src_t;
#define IN_UNIT() vp_in_u16()
#else
typedef uint32_t src_t;
#define IN_UNIT() vp_in_u32()
#endif

#if DST == U8 || DST == L1
typedef uint8_t dst_t; typedef T_vp_dtor_c8_a0 dbuf_t;
#define DTOR vp_dtor_c8
#elif DST == U16
typedef uint16_t dst_t; typedef T_vp_dtor_c16_a0 dbuf_t;
#define DTOR vp_dtor_c16
#elif DST == U32
typedef uint32_t dst_t; typedef T_vp_dtor_c32_a0 dbuf_t;
#define DTOR vp_dtor_c32
#else
typedef uint32_t dst_t; typedef T_vp_dtor_wc_a0 dbuf_t;
#define DTOR vp_dtor_wc
#endif
#define DL LOCAL_LEN(sizeof(dst_t))
#define OMAX (4 * N + 1)

VP_BUF_HELPERS(D, dbuf_t, dst_t, DL, OMAX)

REF_DECODE_U8(N + 1)
REF_DECODE_U16(N + 1)
REF_DECODE_U32(N + 1)
REF_DECODE_L1(N + 1)
REF_ENCODE_U8(N + 1)
REF_ENCODE_U16(N + 1)
REF_ENCODE_U32(N + 1)
REF_ENCODE_L1(N + 1)

int vp_harness_main(void) {
  src_t sh[N + 1]; uint64_t n;
#ifdef SCALARS
  /* well-formed text: the standard encoding of SHAPE_K arbitrary Unicode scalar values of a concrete shape (scalar_seq.h) */
  { uint32_t vals[SHAPE_K ? SHAPE_K : 1]; SHAPE_ENCODE(SRC, src_t, sh, n, vals); ASSERT(n <= N, "shape fits (harness self-check)"); }
#else
  n = vp_in_u64(); ASSUME(n <= N);
  for (int i = 0; i < N; i++) sh[i] = IN_UNIT();
#endif
  uint32_t mode = vp_in_u32(); ASSUME(mode <= 2);
#ifdef MODE
  ASSUME(mode == MODE);
#endif
  uint8_t subst = vp_in_u8(); ASSUME(subst <= 1);
  uint8_t usenull = vp_in_u8(); ASSUME(usenull <= 1);
  if (usenull) ASSUME(n == 0);
#ifdef KF_EXCLUDE_OUT_OF_RANGE
  for (uint64_t i = 0; i < N; i++) if (i < n) ASSUME((uint32_t)sh[i] <= 0x10FFFF);   /* input class of known finding KF-C02-1, see props/C02.py */
#endif
  src_t *in = (src_t *)vp_exact(n * sizeof(src_t));
  for (uint64_t i = 0; i < N; i++) if (i < n) in[i] = sh[i];

  /* ---- reference */
  ref_item it[N + 1]; uint64_t k; dst_t ref[OMAX + 1]; uint64_t rl = 0; int rthrow;
#if SRC == U8
  k = ref_decode_u8(sh, n, it);
#elif SRC == U16
  k = ref_decode_u16(sh, n, it);
#elif SRC == L1
  k = ref_decode_l1(sh, n, it);
#else
  k = ref_decode_u32(sh, n, it);
#endif
#if DST == U8
  rthrow = ref_encode_u8(it, k, (int)mode, ref, &rl);
#elif DST == U16
  rthrow = ref_encode_u16(it, k, (int)mode, ref, &rl);
#elif DST == L1
  rthrow = ref_encode_l1(it, k, (int)mode, subst, ref, &rl);
#else
  rthrow = ref_encode_u32(it, k, (int)mode, ref, &rl);
#endif

  /* ---- the library */
  dbuf_t out; int have_out = 0;
#ifdef FAULT
  { uint32_t fk = vp_in_u32(); ASSUME(fk < FAULT); vp_fail_alloc_at = vp_alloc_count + (int)fk; }   /* C19 */
#endif
#if SRC == L1
  CONV(&out, usenull ? (src_t *)0 : in, n);
#elif DST == L1
  CONV(&out, usenull ? (src_t *)0 : in, n, mode, subst);
#else
  CONV(&out, usenull ? (src_t *)0 : in, n, mode);
#endif
  for (uint64_t i = 0; i < N; i++) if (i < n) ASSERT(in[i] == sh[i], "input is not modified");
#ifdef FAULT
  vp_fail_alloc_at = -1;
  if (vp_exc_pending && vp_exc_kind == VP_EXC_BAD_ALLOC) { REACH("allocation-failure path"); vp_clear_exception(); ASSERT(vp_live_blocks == 0, "no leak after the failed conversion"); REACH("end of harness"); return 0; }
#endif
  if (vp_exc_pending) {
    ASSERT(vp_exc_kind == VP_EXC_UNICODE, "the only exception a conversion throws is ST::unicode_error");
    ASSERT(rthrow, "library rejects => reference rejects (no spurious unicode_error)");
#ifdef EXPECT_THROW
    REACH("conversion throws");
#endif
    vp_clear_exception();
  } else {
    have_out = 1;
    ASSERT(D_inv(&out), "result satisfies the buffer invariant (exact storage, NUL after the last unit)");
#ifdef IDENTITY_ALIAS
    /* wchar_t <-> UTF-32 on a 4-byte-wchar_t platform is a plain copy that ignores the validation mode (recorded under
     * C02 as a known finding); for C03 only totality, memory safety and the size are claimed for this pair */
    ASSERT(out.f1 == n, "result size equals the number of source units (identity alias)");
#else
    ASSERT(!rthrow, "reference rejects => library throws ST::unicode_error");
    if (!rthrow) {
      ASSERT(out.f1 == rl, "result size equals the size of the reference transcoding");
      for (uint64_t i = 0; i < OMAX; i++) if (i < rl && i < out.f1) ASSERT(out.f0[i] == ref[i], "result unit equals the reference transcoding");
    }
#endif
#ifdef SCALARS
    REACH("well-formed input converted");
#endif
  }
#if defined(SCALARS) && DST != L1
  ASSERT(!rthrow, "well-formed Unicode is accepted in every mode (reference self-check)");
#endif
  if (have_out) DTOR(&out);
  ASSERT(vp_live_blocks == 0, "no leak (also when the conversion throws)");
  REACH("end of harness");
  return 0;
}

/* C11_render.c -- formatted output equals the specified rendering of fields and padding.
 * The format_spec fields are symbolic (every combination of alignment, pad, zero-pad, width, precision, '#', '+', digit class at once);
 * the reference renderer below is written from the property text.
 *  -DOP=1 format_string (text cut to precision, padded to width)        -DT=<max text>  -DW=<max width>
 *  -DOP=2 format_numeric_string: layout of sign / prefix / padding / digits for ARBITRARY digit text -DT=<max digits> -DW
 *  -DOP=3 format_type(bool) / (const char*) / (ST::string) -DFORM=1..3
 *  -DOP=4 character class: format_char / format_type(<char types>, digit_char)  -DFORM=1..5
 *  -DOP=5 format_type(<integer type>) with radix 16/8/2 (and 10 for <= 16-bit types): digits + layout  -DITYPE=<shim suffix> -DIBITS -DISIGNED
 *  -DOP=6 sequential vs &N argument selection through the real apply_format (concrete field list -DFMT="...", -DEXPECT="...") */
#include "vp_harness.h"
#include "k.h"
#ifndef T
#define T 4
#endif
#define SINK_EVENTS 10
#define SINK_COPY (T + 1)
#include "sink.h"
void SINKFN(vp_sink_spec)(void *spec) { (void)spec; }
#define CC2_(a, b) a##b
#define CC_(a, b) CC2_(a, b)
#define CAT_CALL(x) CC_(vp_format_type_, x)
typedef vp_format_spec_t spec_t;   /* { int minimum_length f0, precision f1, arg_index f2; alignment f3; digit_class f4; float_class f5; char pad f6; bool always_signed f7, class_prefix f8, numeric_pad f9 } */
#ifndef W
#define W 8
#endif
#ifndef T
#define T 4
#endif
#define OMAX (W + T + 8)
enum { AL_DEFAULT = 0, AL_LEFT = 1, AL_RIGHT = 2 };
enum { DG_DEFAULT = 0, DG_DEC = 1, DG_HEX = 2, DG_HEXU = 3, DG_OCT = 4, DG_BIN = 5, DG_CHAR = 6 };

static void mk_spec(spec_t *s) {
  s->f0 = vp_in_u32(); s->f1 = vp_in_u32(); s->f2 = vp_in_u32();
  s->f3 = vp_in_u32(); ASSUME(s->f3 <= 2);
  s->f4 = vp_in_u32(); ASSUME(s->f4 <= 6);
  s->f5 = vp_in_u32(); ASSUME(s->f5 <= 3);
  s->f6 = vp_in_u8();
  s->f7 = vp_in_u8(); s->f8 = vp_in_u8(); s->f9 = vp_in_u8(); ASSUME(s->f7 <= 1 && s->f8 <= 1 && s->f9 <= 1);
  ASSUME((int32_t)s->f0 <= W);          /* widths above W are outside the bound; every negative width is inside */
}
static uint64_t emit(uint8_t *o, uint64_t p, const uint8_t *t, uint64_t n, uint64_t cap) { for (uint64_t i = 0; i < cap; i++) if (i < n && p < OMAX) { o[p] = t[i]; p++; } return p; }
static uint64_t fill(uint8_t *o, uint64_t p, uint8_t c, uint64_t n) { for (uint64_t i = 0; i < W + 1; i++) if (i < n && p < OMAX) { o[p] = c; p++; } return p; }
static void compare(const uint8_t *exp, uint64_t el) {
  uint8_t got[OMAX + 1]; uint64_t gl = sink_flatten(got, OMAX);
  ASSERT(sink_total == el, "output length equals the specified rendering (extended to the minimum width, never truncated)");
  for (uint64_t i = 0; i < OMAX; i++) if (i < el && i < gl) ASSERT(got[i] == exp[i], "output byte equals the specified rendering");
}
/* text field: cut to precision, pad to width on the side given by the alignment (text: left by default) */
static uint64_t ref_text(const spec_t *s, const uint8_t *t, uint64_t n, int dflt, uint8_t *o) {
  uint64_t cut = n; if ((int32_t)s->f1 >= 0 && n > (uint64_t)(int32_t)s->f1) cut = (uint64_t)(int32_t)s->f1;
  uint8_t pad = s->f6 ? s->f6 : ' ';
  int64_t w = (int32_t)s->f0; uint64_t pc = (w > (int64_t)cut) ? (uint64_t)(w - (int64_t)cut) : 0;
  int al = s->f3 == AL_DEFAULT ? dflt : (int)s->f3;
  uint64_t p = 0;
  if (al == AL_RIGHT) { p = fill(o, p, pad, pc); p = emit(o, p, t, cut, T + 1); } else { p = emit(o, p, t, cut, T + 1); p = fill(o, p, pad, pc); }
  return p;
}
/* numeric field: sign, prefix (none for zero), digits; zero padding between sign/prefix and digits; otherwise by alignment (numbers right by default) */
static uint64_t ref_pc;
static uint64_t ref_numeric(const spec_t *s, const uint8_t *dg, uint64_t n, int nt /*0 pos 1 neg 2 zero*/, uint8_t *o) {
  uint8_t sp[4]; uint64_t sl = 0;
  if (nt == 1) sp[sl++] = '-'; else if (s->f7) sp[sl++] = '+';
  if (nt != 2 && s->f8) {
    if (s->f4 == DG_HEX) { sp[sl++] = '0'; sp[sl++] = 'x'; } else if (s->f4 == DG_HEXU) { sp[sl++] = '0'; sp[sl++] = 'X'; }
    else if (s->f4 == DG_BIN) { sp[sl++] = '0'; sp[sl++] = 'b'; } else if (s->f4 == DG_OCT) sp[sl++] = '0';
  }
  uint8_t pad = s->f6 ? s->f6 : ' ';
  int64_t w = (int32_t)s->f0, nat = (int64_t)(sl + n); uint64_t pc = w > nat ? (uint64_t)(w - nat) : 0;
  uint64_t p = 0; ref_pc = pc;
  if (s->f9) { p = emit(o, p, sp, sl, 4); p = fill(o, p, pad, pc); p = emit(o, p, dg, n, T + 1); }
  else if (s->f3 == AL_LEFT) { p = emit(o, p, sp, sl, 4); p = emit(o, p, dg, n, T + 1); p = fill(o, p, pad, pc); }
  else { p = fill(o, p, pad, pc); p = emit(o, p, sp, sl, 4); p = emit(o, p, dg, n, T + 1); }
  return p;
}

int vp_harness_main(void) {
  spec_t s; uint8_t exp[OMAX + 1]; uint64_t el = 0;
#if OP != 6
  mk_spec(&s);
#endif
#if OP == 1 || OP == 2 || OP == 3
  uint8_t tx[T + 1]; uint64_t n = vp_in_u64(); ASSUME(n <= T);
  for (int i = 0; i < T; i++) tx[i] = vp_in_u8();
#endif
#if OP == 1
  { uint8_t *t = (uint8_t *)vp_exact(n); for (uint64_t i = 0; i < T; i++) if (i < n) t[i] = tx[i];
    uint32_t dflt = vp_in_u32(); ASSUME(dflt == AL_LEFT || dflt == AL_RIGHT);
    vp_format_string(&s, t, n, dflt); el = ref_text(&s, tx, n, (int)dflt, exp); }
#elif OP == 2
  { uint8_t *t = (uint8_t *)vp_exact(n); for (uint64_t i = 0; i < T; i++) if (i < n) t[i] = tx[i];
    uint32_t nt = vp_in_u32(); ASSUME(nt <= 2);
    vp_format_numeric_string(&s, t, n, nt); el = ref_numeric(&s, tx, n, (int)nt, exp);
    ASSERT(vp_pad_size(&s, n, nt) == ref_pc, "pad_size = max(0, width - sign - prefix - digits)");
    if (s.f9 && s.f8 && nt == 1 && (int32_t)s.f0 > (int32_t)n + 3) REACH("sign + prefix + zero padding + digits"); }
#elif OP == 3
#if FORM == 1
  { uint8_t b = vp_in_u8(); ASSUME(b <= 1); vp_format_type_bool(&s, b);
    static const uint8_t tt[] = "true", ff[] = "false"; el = ref_text(&s, b ? tt : ff, b ? 4 : 5, AL_LEFT, exp); }
#elif FORM == 2
  { uint8_t *t = (uint8_t *)vp_exact(n + 1); for (uint64_t i = 0; i < T; i++) if (i < n) { ASSUME(tx[i] != 0); t[i] = tx[i]; } t[n] = 0;
    vp_format_type_cstr(&s, t); el = ref_text(&s, tx, n, AL_LEFT, exp); }
#else
  { vp_string_t str; uint8_t *t = (uint8_t *)vp_exact(n); for (uint64_t i = 0; i < T; i++) if (i < n) t[i] = tx[i];
    vp_str_from_validated(&str, t, n); vp_format_type_string(&s, &str); el = ref_text(&s, tx, n, AL_LEFT, exp); vp_str_dtor(&str); }
#endif
#elif OP == 4
  { uint32_t v;
    /* padding on a character conversion is a documented contract assertion: excluded here by assumption (placed before the call) */
    ASSUME(s.f0 == 0 && s.f6 == 0);
#if FORM == 1
    v = vp_in_u32(); vp_format_char(&s, v);
#elif FORM == 2
    { uint8_t c = vp_in_u8(); ASSUME(s.f4 == DG_CHAR); v = (uint32_t)(int32_t)(int8_t)c; vp_format_type_char(&s, (int64_t)(int8_t)c); }
#elif FORM == 3
    { uint16_t c = vp_in_u16(); ASSUME(s.f4 == DG_CHAR); v = c; vp_format_type_char16(&s, c); }
#elif FORM == 4
    { v = vp_in_u32(); ASSUME(s.f4 == DG_CHAR); vp_format_type_char32(&s, v); }
#else
    { v = vp_in_u32(); ASSUME(s.f4 == DG_CHAR); vp_format_type_int(&s, (int64_t)(int32_t)v); }
#endif
    if (v > 0x10FFFF) v = 0xFFFD;
    if (v <= 0x7F) { exp[0] = (uint8_t)v; el = 1; }
    else if (v <= 0x7FF) { exp[0] = (uint8_t)(0xC0 + v / 64u); exp[1] = (uint8_t)(0x80 + v % 64u); el = 2; }
    else if (v <= 0xFFFF) { exp[0] = (uint8_t)(0xE0 + v / 4096u); exp[1] = (uint8_t)(0x80 + (v / 64u) % 64u); exp[2] = (uint8_t)(0x80 + v % 64u); el = 3; }
    else { exp[0] = (uint8_t)(0xF0 + v / 262144u); exp[1] = (uint8_t)(0x80 + (v / 4096u) % 64u); exp[2] = (uint8_t)(0x80 + (v / 64u) % 64u); exp[3] = (uint8_t)(0x80 + v % 64u); el = 4; } }
#elif OP == 5
  { /* digits in the requested radix and case, most significant first, no leading zeros ("0" for zero) */
    uint64_t raw = vp_in_u64(), mag; int neg = 0;
    ASSUME(s.f4 == RADIX_CLASS);
#if ISIGNED
    int64_t sv = (int64_t)(raw << (64 - IBITS)) >> (64 - IBITS);
#ifdef VMIN
    ASSUME(sv >= VMIN && sv <= VMAX);       /* decimal at 32/64 bits is decided on windows of values (DESIGN.md C12) */
#endif
    neg = sv < 0; mag = neg ? (uint64_t)0 - (uint64_t)sv : (uint64_t)sv;
    CAT_CALL(ITYPE)(&s, sv);
#else
    mag = IBITS == 64 ? raw : (raw & (((uint64_t)1 << (IBITS % 64)) - 1));
#ifdef VMAX
    ASSUME(mag >= VMINU && mag <= VMAX);
#endif
    CAT_CALL(ITYPE)(&s, mag);
#endif
    uint32_t radix = RADIX_CLASS == DG_HEX || RADIX_CLASS == DG_HEXU ? 16 : RADIX_CLASS == DG_OCT ? 8 : RADIX_CLASS == DG_BIN ? 2 : 10;
    uint8_t dg[T + 1], rev[T + 1]; uint64_t nd = 0, m = mag;
    for (int i = 0; i < T; i++) if (m != 0 || i == 0) { uint32_t d = (uint32_t)(m % radix); m /= radix; rev[nd++] = (uint8_t)(d < 10 ? '0' + d : (RADIX_CLASS == DG_HEXU ? 'A' : 'a') + d - 10); }
    ASSUME(m == 0);   /* T digits suffice by construction of the query */
    for (uint64_t i = 0; i < T; i++) if (i < nd) dg[i] = rev[nd - 1 - i];
    el = ref_numeric(&s, dg, nd, mag == 0 ? 2 : neg ? 1 : 0, exp);
#if ISIGNED && !defined(VMIN)
    if (neg && mag == ((uint64_t)1 << (IBITS - 1))) REACH("most negative value");
#elif ISIGNED
    if (sv == VMIN) REACH("smallest value of the window");
#endif
  }
#elif OP == 6
  { static const uint8_t f[] = FMT, a[] = "A", b[] = "BB", c[] = "CCC", e[] = EXPECT;
    vp_fmt_apply3_cstr((uint8_t *)f, (uint8_t *)a, (uint8_t *)b, (uint8_t *)c);
    el = sizeof(e) - 1; for (uint64_t i = 0; i < sizeof(e) - 1; i++) exp[i] = e[i]; }
#endif
  ASSERT(!vp_exc_pending, "rendering does not throw");
  compare(exp, el);
  ASSERT(vp_live_blocks == 0, "no leak");
  REACH("end of harness");
  return 0;
}

/* C17_sinks.c -- all output sinks emit the same bytes for the same driver calls.
 * All sinks plug into one driver that never looks at the sink (append/append_char return *this, ignored), so byte-identical output follows from:
 * for ARBITRARY (data, size) each sink's append() emits exactly those bytes (or their UTF-16/32 transcoding) and for ARBITRARY (ch, count)
 * append_char() emits exactly count copies.  libstdc++/libc stream functions are ENVIRONMENT: modelled below as logs.
 *  -DSINK=1 FILE*  2 ostream<char>  3 ostream<wchar_t>  4 ostream<char16_t>  5 ostream<char32_t>  6 string sink (ST::format)  7 string sink, Latin-1 (ST::format_latin_1)
 *  -DOP=1 append + append_char     -DOP=2 stream insertion of an ST::string (SINK 2..5)      -DN=<bytes of data (concrete)>
 *  -DOP=3 stream extraction into an ST::string (SINK 2..5): the token the stream's std::basic_string extraction yields is ENVIRONMENT (N arbitrary
 *         non-whitespace units); the ST::string must hold exactly that token (its UTF-8 transcoding) under the build's default validation */
#include "vp_harness.h"
#include "k.h"
#include "ref_utf.h"
typedef vp_string_t str_t;
#ifndef N
#define N 3
#endif
#ifndef CMAX
#define CMAX 3
#endif
#define LOGN ((SINK == 7 ? 2 * N : N) + CMAX + 2)     /* the Latin-1 string sink emits up to two bytes per input byte */
#if SINK == 3 || SINK == 5
typedef uint32_t unit_t;
#elif SINK == 4
typedef uint16_t unit_t;
#else
typedef uint8_t unit_t;
#endif
static unit_t lg[LOGN + 1]; static uint64_t ln;
static void log_unit(unit_t u) { if (ln < LOGN) lg[ln] = u; ln++; }
#ifdef __CPROVER__
static uint8_t fake_stream_object[8];
#define STREAM ((void *)fake_stream_object)
/* ---- environment models: the C library / libstdc++ side of each sink call */
uint64_t vpx_fwrite(uint8_t *p, uint64_t size, uint64_t nmemb, void *f) { (void)f; for (uint64_t i = 0; i < LOGN; i++) if (i < size * nmemb) { VP_ACCESS(p + i, 1); log_unit(p[i]); } return nmemb; }
uint32_t vpx_fputc(uint32_t c, void *f) { (void)f; log_unit((unit_t)(uint8_t)c); return c; }
void *vpx__ZNSo5writeEPKcl(void *os, uint8_t *p, uint64_t n) { for (uint64_t i = 0; i < LOGN; i++) if (i < n) { VP_ACCESS(p + i, 1); log_unit(p[i]); } return os; }
void *vpx__ZNSo3putEc(void *os, uint8_t c) { log_unit((unit_t)c); return os; }
void *vpx__ZNSt13basic_ostreamIwSt11char_traitsIwEE5writeEPKwl(void *os, uint32_t *p, uint64_t n) { for (uint64_t i = 0; i < LOGN; i++) if (i < n) { VP_ACCESS(p + i, 4); log_unit((unit_t)p[i]); } return os; }
void *vpx__ZNSt13basic_ostreamIwSt11char_traitsIwEE3putEw(void *os, uint32_t c) { log_unit((unit_t)c); return os; }
void *vpx__ZNSt13basic_ostreamIDsSt11char_traitsIDsEE5writeEPKDsl(void *os, uint16_t *p, uint64_t n) { for (uint64_t i = 0; i < LOGN; i++) if (i < n) { VP_ACCESS(p + i, 2); log_unit((unit_t)p[i]); } return os; }
void *vpx__ZNSt13basic_ostreamIDsSt11char_traitsIDsEE3putEDs(void *os, uint16_t c) { log_unit((unit_t)c); return os; }
void *vpx__ZNSt13basic_ostreamIDiSt11char_traitsIDiEE5writeEPKDil(void *os, uint32_t *p, uint64_t n) { for (uint64_t i = 0; i < LOGN; i++) if (i < n) { VP_ACCESS(p + i, 4); log_unit((unit_t)p[i]); } return os; }
void *vpx__ZNSt13basic_ostreamIDiSt11char_traitsIDiEE3putEDi(void *os, uint32_t c) { log_unit((unit_t)c); return os; }
/* std::basic_string<CT>(ptr, len, alloc) is modelled as a (pointer, length) view; operator<<(ostream&, const basic_string&) logs it; the C-string
 * inserter logs up to the first NUL (what the real one does) */
#define BS_MODEL(CTAG, UT)                                                                                                                       \
  void vpx__ZNSaI##CTAG##EC2Ev(void *a) { (void)a; } void vpx__ZNSaI##CTAG##ED2Ev(void *a) { (void)a; }                                            \
  void vpx__ZNSt7__cxx1112basic_stringI##CTAG##St11char_traitsI##CTAG##ESaI##CTAG##EEC2EPK##CTAG##mRKS3_(void *self, UT *p, uint64_t n, void *al) { (void)al; ((UT **)self)[0] = p; ((uint64_t *)self)[1] = n; } \
  void vpx__ZNSt7__cxx1112basic_stringI##CTAG##St11char_traitsI##CTAG##ESaI##CTAG##EED2Ev(void *self) { (void)self; }                              \
  void *vpx__ZStlsI##CTAG##St11char_traitsI##CTAG##ESaI##CTAG##EERSt13basic_ostreamIT_T0_ES7_RKNSt7__cxx1112basic_stringIS4_S5_T1_EE(void *os, void *str) { \
    UT *p = ((UT **)str)[0]; uint64_t n = ((uint64_t *)str)[1]; for (uint64_t i = 0; i < LOGN; i++) if (i < n) { VP_ACCESS(p + i, sizeof(UT)); log_unit((unit_t)p[i]); } return os; } \
  void *vpx__ZStlsISt11char_traitsI##CTAG##EERSt13basic_ostreamI##CTAG##T_ES5_PK##CTAG(void *os, UT *z) { for (uint64_t i = 0; i < LOGN + 1; i++) { VP_ACCESS(z + i, sizeof(UT)); if (!z[i]) break; log_unit((unit_t)z[i]); } return os; }
/* the generic (non-char) C-string inserter has a different mangled name */
#define ZS_MODEL(CTAG, UT) void *vpx__ZStlsI##CTAG##St11char_traitsI##CTAG##EERSt13basic_ostreamIT_T0_ES6_PKS3_(void *os, UT *z) { for (uint64_t i = 0; i < LOGN + 1; i++) { VP_ACCESS(z + i, sizeof(UT)); if (!z[i]) break; log_unit((unit_t)z[i]); } return os; }
#if OP == 3
/* extraction: std::basic_string<CT>() is an empty (pointer,length) view; operator>>(istream&, basic_string&) makes it view the token object */
static unit_t *tok_obj;
#define XS_MODEL(CTAG, UT)                                                                                                                       \
  void vpx__ZNSt7__cxx1112basic_stringI##CTAG##St11char_traitsI##CTAG##ESaI##CTAG##EEC2Ev(void *self) { ((UT **)self)[0] = 0; ((uint64_t *)self)[1] = 0; } \
  void *vpx__ZStrsI##CTAG##St11char_traitsI##CTAG##ESaI##CTAG##EERSt13basic_istreamIT_T0_ES7_RNSt7__cxx1112basic_stringIS4_S5_T1_EE(void *is, void *str) { ((UT **)str)[0] = (UT *)tok_obj; ((uint64_t *)str)[1] = N; return is; } \
  UT *vpx__ZNKSt7__cxx1112basic_stringI##CTAG##St11char_traitsI##CTAG##ESaI##CTAG##EE5c_strEv(void *self) { return ((UT **)self)[0]; }           \
  uint64_t vpx__ZNKSt7__cxx1112basic_stringI##CTAG##St11char_traitsI##CTAG##ESaI##CTAG##EE4sizeEv(void *self) { return ((uint64_t *)self)[1]; }
#if SINK == 2
XS_MODEL(c, uint8_t)
#elif SINK == 3
XS_MODEL(w, uint32_t)
#elif SINK == 4
XS_MODEL(Ds, uint16_t)
#else
XS_MODEL(Di, uint32_t)
#endif
#endif
#if SINK == 2
BS_MODEL(c, uint8_t)
#elif SINK == 3
BS_MODEL(w, uint32_t) ZS_MODEL(w, uint32_t)
#elif SINK == 4
BS_MODEL(Ds, uint16_t) ZS_MODEL(Ds, uint16_t)
#elif SINK == 5
BS_MODEL(Di, uint32_t) ZS_MODEL(Di, uint32_t)
#endif
#else
uint64_t vp_nat_sink_c8(const void *, uint64_t, int, uint64_t, const void *, void *, uint64_t); uint64_t vp_nat_sink_wc(const void *, uint64_t, int, uint64_t, const void *, void *, uint64_t);
uint64_t vp_nat_sink_c16(const void *, uint64_t, int, uint64_t, const void *, void *, uint64_t); uint64_t vp_nat_sink_c32(const void *, uint64_t, int, uint64_t, const void *, void *, uint64_t);
uint64_t vp_nat_sink_stdio(const void *, uint64_t, int, uint64_t, void *, uint64_t);
uint64_t vp_nat_entry_stdio(const void *, const void *, void *, uint64_t); uint64_t vp_nat_entry_c8(const void *, const void *, void *, uint64_t); uint64_t vp_nat_entry_c16(const void *, const void *, void *, uint64_t);
void vp_nat_extract_c8(const void *, uint64_t, void *); void vp_nat_extract_wc(const void *, uint64_t, void *); void vp_nat_extract_c16(const void *, uint64_t, void *); void vp_nat_extract_c32(const void *, uint64_t, void *);
#endif
REF_DECODE_U8(N + 1)
REF_ENCODE_U16(N + 1)
REF_ENCODE_U32(N + 1)
#if OP == 3
REF_DECODE_U16(N + 1)
REF_DECODE_U32(N + 1)
REF_ENCODE_U8(N + 1)
VP_BUF_HELPERS(S, __typeof__(((str_t *)0)->f0), uint8_t, VP_SSO, 5)
static int is_space(uint32_t u) { return u == 0x20 || (u >= 0x09 && u <= 0x0D); }

static int extraction_main(void) {
  /* the token: N arbitrary non-whitespace units (NUL and malformed sequences included) in an exactly-sized, NUL-terminated object */
  unit_t sh[N + 1]; unit_t *t = (unit_t *)vp_exact((N + 1) * sizeof(unit_t));
  for (int i = 0; i < N; i++) { sh[i] = (unit_t)(sizeof(unit_t) == 1 ? vp_in_u8() : sizeof(unit_t) == 2 ? vp_in_u16() : vp_in_u32()); ASSUME(!is_space(sh[i])); t[i] = sh[i]; }
  t[N] = 0;
  str_t s; uint8_t before[8]; S_mk(&s.f0, before);      /* the target holds an arbitrary previous value */
  uint64_t bn = s.f0.f1;
  /* expected: the token itself (narrow stream) or its UTF-8 transcoding (wide streams); ST::unicode_error exactly for a malformed token (default validation of this build: check_validity) */
  ref_item it[N + 1]; uint8_t exp8[4 * N + 4]; uint64_t el = 0; int expect_throw = 0; uint64_t k;
#if SINK == 2
  k = ref_decode_u8(sh, N, it);
  for (uint64_t i = 0; i < N; i++) { if (i < k && it[i].bad) expect_throw = 1; exp8[i] = sh[i]; }
  el = N;
#elif SINK == 4
  k = ref_decode_u16(sh, N, it); expect_throw = ref_encode_u8(it, k, MODE_CHECK, exp8, &el);
#else
  k = ref_decode_u32(sh, N, it); expect_throw = ref_encode_u8(it, k, MODE_CHECK, exp8, &el);
#endif
#ifdef __CPROVER__
  tok_obj = t;
#if SINK == 2
  vp_is_extract_c8(STREAM, &s);
#elif SINK == 3
  vp_is_extract_wc(STREAM, &s);
#elif SINK == 4
  vp_is_extract_c16(STREAM, &s);
#else
  vp_is_extract_c32(STREAM, &s);
#endif
#else
#if SINK == 2
  vp_nat_extract_c8(t, N, &s);
#elif SINK == 3
  vp_nat_extract_wc(t, N, &s);
#elif SINK == 4
  vp_nat_extract_c16(t, N, &s);
#else
  vp_nat_extract_c32(t, N, &s);
#endif
#endif
  if (vp_exc_pending) {
    ASSERT(vp_exc_kind == VP_EXC_UNICODE && expect_throw, "extraction throws only ST::unicode_error, only for a token that is malformed under the default validation");
    vp_clear_exception();
    ASSERT(S_inv(&s.f0) && S_eq(&s.f0, before, bn), "a rejected token leaves the target unchanged");
    REACH("malformed token rejected");
  } else {
    ASSERT(!expect_throw, "a malformed token is rejected (default validation: check_validity)");
    ASSERT(S_inv(&s.f0), "the extracted string is a valid string");
    ASSERT(s.f0.f1 == el, "the string holds exactly the token (its UTF-8 transcoding), embedded NULs included");
    for (uint64_t i = 0; i < 4 * N + 4; i++) if (i < el && i < s.f0.f1) ASSERT(s.f0.f0[i] == exp8[i], "the string holds exactly the token's units (transcoded to UTF-8), in order");
  }
  for (int i = 0; i < N; i++) ASSERT(t[i] == sh[i], "the token is not modified");
  S_destroy(&s.f0);
  ASSERT(vp_live_blocks == 0, "no leak");
  REACH("end of harness");
  return 0;
}
#endif

#if OP == 3
int vp_harness_main(void) { return extraction_main(); }
#elif OP == 4
/* the entry points themselves with one argument: ST::printf(FILE*), ST::writef(ostream<char>), ST::writef(ostream<char16_t>), ST::format, ST::format_latin_1
 * on the format "x{}y" and an arbitrary ASCII C string of N bytes: every sink receives x, the argument, y (for the Latin-1 string sink: the same bytes). */
int vp_harness_main(void) {
  static const uint8_t fmt[] = "x{}y";
  uint8_t sh[N + 1]; uint8_t *a = (uint8_t *)vp_exact(N + 1);
  for (int i = 0; i < N; i++) { sh[i] = vp_in_u8(); ASSUME(sh[i] != 0 && sh[i] < 0x80); a[i] = sh[i]; } a[N] = 0;
  unit_t exp[LOGN + 1]; uint64_t el = 0; exp[el++] = 'x'; for (int i = 0; i < N; i++) exp[el++] = sh[i]; exp[el++] = 'y';
#ifdef __CPROVER__
#if SINK == 1
  vp_printf_1(STREAM, (uint8_t *)fmt, a);
#elif SINK == 2
  vp_writef_1_c8(STREAM, (uint8_t *)fmt, a);
#elif SINK == 4
  vp_writef_1_c16(STREAM, (uint8_t *)fmt, a);
#endif
#else
#if SINK == 1
  ln = vp_nat_entry_stdio(fmt, a, lg, LOGN);
#elif SINK == 2
  ln = vp_nat_entry_c8(fmt, a, lg, LOGN);
#elif SINK == 4
  ln = vp_nat_entry_c16(fmt, a, lg, LOGN);
#endif
#endif
#if SINK == 6 || SINK == 7
  { str_t out;
#if SINK == 6
    vp_format_1(&out, (uint8_t *)fmt, a);
#else
    vp_format_latin_1_1(&out, (uint8_t *)fmt, a);
#endif
    ASSERT(!vp_exc_pending, "formatting ASCII text does not throw");
    ln = out.f0.f1; for (uint64_t i = 0; i < LOGN; i++) if (i < ln) lg[i] = out.f0.f0[i];
    vp_str_dtor(&out); }
#endif
  ASSERT(!vp_exc_pending, "the entry point does not throw on a well-formed format and ASCII argument");
  ASSERT(ln == el, "the sink received exactly: literal, argument, literal");
  for (uint64_t i = 0; i < LOGN; i++) if (i < el && i < ln) ASSERT(lg[i] == exp[i], "the sink received exactly the expected units, in order");
  for (int i = 0; i < N; i++) ASSERT(a[i] == sh[i], "argument text unchanged");
  ASSERT(vp_live_blocks == 0, "no leak");
  REACH("end of harness");
  return 0;
}
#else
int vp_harness_main(void) {
  uint8_t sh[N + 1]; uint8_t *d = (uint8_t *)vp_exact(N);
  for (int i = 0; i < N; i++) { sh[i] = vp_in_u8(); d[i] = sh[i]; }
  uint8_t ch = vp_in_u8(); ASSUME(ch != 0 && ch < 0x80);      /* pad characters are ASCII */
  uint64_t count = vp_in_u64(); ASSUME(count <= CMAX);
  /* expected units: the data bytes (narrow sinks) or their transcoding under the default validation (wide sinks), then count copies of ch */
  unit_t exp[LOGN + 1]; uint64_t el = 0; int expect_throw = 0;
#if OP == 2
  count = 0;
#endif
#if SINK == 3 || SINK == 4 || SINK == 5
  { ref_item it[N + 1]; uint64_t k = ref_decode_u8(sh, N, it);
#if OP == 2
    int mode = MODE_ASSUME_VALID;     /* to_buffer() transcodes with assume_valid */
#else
    int mode = MODE_CHECK;            /* ST_DEFAULT_VALIDATION of this build */
#endif
#if SINK == 4
    expect_throw = ref_encode_u16(it, k, mode, exp, &el);
#else
    expect_throw = ref_encode_u32(it, k, mode, exp, &el);
#endif
  }
#elif SINK == 7
  for (int i = 0; i < N; i++) { if (sh[i] < 0x80) exp[el++] = sh[i]; else { exp[el++] = (uint8_t)(0xC0 + sh[i] / 64u); exp[el++] = (uint8_t)(0x80 + sh[i] % 64u); } }
#else
  for (int i = 0; i < N; i++) exp[el++] = sh[i];
#endif
  if (!expect_throw) for (uint64_t i = 0; i < CMAX; i++) if (i < count) exp[el++] = (unit_t)ch;
  str_t s; int have_s = 0;
#if OP == 2
  vp_str_from_validated(&s, d, N); have_s = 1;
#endif
#ifdef __CPROVER__
#if SINK == 1
  vp_stdio_append(STREAM, d, N); vp_stdio_append_char(STREAM, (int8_t)ch, count);
#elif SINK == 2 && OP == 1
  vp_os_append_c8(STREAM, d, N); vp_os_append_char_c8(STREAM, (int8_t)ch, count);
#elif SINK == 3 && OP == 1
  vp_os_append_wc(STREAM, d, N); if (!vp_exc_pending) vp_os_append_char_wc(STREAM, (int8_t)ch, count);
#elif SINK == 4 && OP == 1
  vp_os_append_c16(STREAM, d, N); if (!vp_exc_pending) vp_os_append_char_c16(STREAM, (int8_t)ch, count);
#elif SINK == 5 && OP == 1
  vp_os_append_c32(STREAM, d, N); if (!vp_exc_pending) vp_os_append_char_c32(STREAM, (int8_t)ch, count);
#elif SINK == 2
  vp_os_insert_c8(STREAM, &s);
#elif SINK == 3
  vp_os_insert_wc(STREAM, &s);
#elif SINK == 4
  vp_os_insert_c16(STREAM, &s);
#elif SINK == 5
  vp_os_insert_c32(STREAM, &s);
#endif
#else
#if SINK == 1
  ln = vp_nat_sink_stdio(d, N, (int8_t)ch, count, lg, LOGN);
#elif SINK == 2
  ln = vp_nat_sink_c8(d, N, (int8_t)ch, count, have_s ? &s : 0, lg, LOGN);
#elif SINK == 3
  ln = vp_nat_sink_wc(d, N, (int8_t)ch, count, have_s ? &s : 0, lg, LOGN);
#elif SINK == 4
  ln = vp_nat_sink_c16(d, N, (int8_t)ch, count, have_s ? &s : 0, lg, LOGN);
#elif SINK == 5
  ln = vp_nat_sink_c32(d, N, (int8_t)ch, count, have_s ? &s : 0, lg, LOGN);
#endif
#endif
#if SINK == 6 || SINK == 7
  { str_t out; vp_strsink(&out, d, N, (int8_t)ch, count, SINK == 6);
    ASSERT(!vp_exc_pending, "the string sink does not throw under assume_valid");
    ln = out.f0.f1; for (uint64_t i = 0; i < LOGN; i++) if (i < ln) lg[i] = out.f0.f0[i];
    vp_str_dtor(&out); }
#endif
  if (vp_exc_pending) {
    ASSERT(vp_exc_kind == VP_EXC_UNICODE && expect_throw, "a wide sink throws only ST::unicode_error, only for a chunk that is not valid UTF-8");
    vp_clear_exception();
  } else {
    ASSERT(!expect_throw, "a malformed chunk is rejected by the wide sinks (default validation)");
    ASSERT(ln == el, "the sink received exactly the expected number of units (data or its transcoding, then count pad characters)");
    for (uint64_t i = 0; i < LOGN; i++) if (i < el && i < ln) ASSERT(lg[i] == exp[i], "the sink received exactly the expected units, in order");
  }
  if (have_s) vp_str_dtor(&s);
  ASSERT(vp_live_blocks == 0, "no leak");
  REACH("end of harness");
  return 0;
}
#endif

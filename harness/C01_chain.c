/* C01_chain.c -- chain A -> B -> A through the library's public pointer+length conversions returns the original units.
 * Source: the standard encoding (reference encoder) of K arbitrary Unicode scalars in form A, or arbitrary Latin-1 bytes.
 *   -DA=<code> -DB=<code> -DAN=<tok> -DBN=<tok> -DN=<units of A> -DSHAPE_K=<K> -DSHAPE_LENS={..} */
#include "vp_harness.h"
#include "k.h"
#include "scalar_seq.h"

#define U8 1
#define U16 2
#define U32 3
#define L1 4
#define WC 5
#define CAT_(a, b) a##b
#define CAT(a, b) CAT_(a, b)
#define CAT4(a, b, c, d) CAT(CAT(a, b), CAT(c, d))
#define CONV_AB CAT4(vp_conv_, AN, _, BN)
#define CONV_BA CAT4(vp_conv_, BN, _, AN)

#if A == U8 || A == L1
typedef uint8_t a_t; typedef T_vp_dtor_c8_a0 abuf_t;
#define A_DTOR vp_dtor_c8
#elif A == U16
typedef uint16_t a_t; typedef T_vp_dtor_c16_a0 abuf_t;
#define A_DTOR vp_dtor_c16
#elif A == U32
typedef uint32_t a_t; typedef T_vp_dtor_c32_a0 abuf_t;
#define A_DTOR vp_dtor_c32
#else
typedef uint32_t a_t; typedef T_vp_dtor_wc_a0 abuf_t;
#define A_DTOR vp_dtor_wc
#endif
#if B == U8 || B == L1
typedef uint8_t b_t; typedef T_vp_dtor_c8_a0 bbuf_t;
#define B_DTOR vp_dtor_c8
#elif B == U16
typedef uint16_t b_t; typedef T_vp_dtor_c16_a0 bbuf_t;
#define B_DTOR vp_dtor_c16
#elif B == U32
typedef uint32_t b_t; typedef T_vp_dtor_c32_a0 bbuf_t;
#define B_DTOR vp_dtor_c32
#else
typedef uint32_t b_t; typedef T_vp_dtor_wc_a0 bbuf_t;
#define B_DTOR vp_dtor_wc
#endif
#define BMAX (4 * N + 1)
VP_BUF_HELPERS(BA, abuf_t, a_t, LOCAL_LEN(sizeof(a_t)), BMAX)
VP_BUF_HELPERS(BB, bbuf_t, b_t, LOCAL_LEN(sizeof(b_t)), BMAX)

int vp_harness_main(void) {
  a_t sh[N + 1]; uint64_t n; uint32_t vals[SHAPE_K ? SHAPE_K : 1];
  /* the standard encoding of SHAPE_K arbitrary scalars (Latin-1: arbitrary bytes) of a concrete shape */
  SHAPE_ENCODE(A, a_t, sh, n, vals);
  ASSERT(n == N, "shape fits (harness self-check)");
  uint32_t m1 = vp_in_u32(), m2 = vp_in_u32(); ASSUME(m1 <= 2 && m2 <= 2);
  uint8_t subst = vp_in_u8(); ASSUME(subst <= 1);
  a_t *in = (a_t *)vp_exact(n * sizeof(a_t));
  for (uint64_t i = 0; i < N; i++) if (i < n) in[i] = sh[i];

  bbuf_t mid; abuf_t back;
#if A == L1
  CONV_AB(&mid, in, n);
#else
  CONV_AB(&mid, in, n, m1);
#endif
  ASSERT(!vp_exc_pending, "well-formed text / Latin-1 converts without an exception (first leg)");
  ASSERT(BB_inv(&mid), "intermediate result satisfies the buffer invariant");
#if A == L1
  CONV_BA(&back, mid.f0, mid.f1, m2, subst);
#else
  CONV_BA(&back, mid.f0, mid.f1, m2);
#endif
  ASSERT(!vp_exc_pending, "the library's own output converts back without an exception (second leg)");
  ASSERT(BA_inv(&back), "round-trip result satisfies the buffer invariant");
  ASSERT(back.f1 == n, "round trip returns the original number of units");
  for (uint64_t i = 0; i < N; i++) if (i < n && i < back.f1) ASSERT(back.f0[i] == sh[i], "round trip returns the original units");
  B_DTOR(&mid); A_DTOR(&back);
  ASSERT(vp_live_blocks == 0, "no leak");
  REACH("end of harness");
  return 0;
}

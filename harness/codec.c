/* codec.c -- hex / base64 (C14: standard encoding and round trip; C15: decoders accept exactly the valid encodings, never overrun).
 *  -DOP=1 base64 per GROUP, full domain: 3 arbitrary bytes, tail length 1..3, against the RFC 4648 definition on the 24-bit value
 *  -DOP=2 base64 sequence n <= N: length, alphabet, '=' placement, content; decode(encode(x)) == x through both decoders
 *  -DOP=3 hex sequence n <= N: 2n lower-case digits; decode both ways; upper-case decodes equally
 *  -DOP=4 hex decoder on ARBITRARY text <= K bytes, arbitrary 64-bit output_size, null / exactly-sized output
 *  -DOP=5 base64 decoder, same
 *  -DOP=6 / 7 throwing (allocating) hex / base64 decoder on arbitrary text */
#include "vp_harness.h"
#include "k.h"
typedef vp_string_t str_t;
typedef __typeof__(((vp_string_t *)0)->f0) cbuf_t;   /* ST::char_buffer */
#ifndef N
#define N 3
#endif
#ifndef K
#define K 4
#endif
#define SMAX (2 * N > K ? (2 * N > 4 * ((N + 2) / 3) ? 2 * N : 4 * ((N + 2) / 3)) : K)
VP_BUF_HELPERS(S, cbuf_t, uint8_t, VP_SSO, SMAX)

/* RFC 4648 alphabet by arithmetic (independent of the library's table) */
static uint8_t b64c(uint32_t i) { return i < 26 ? (uint8_t)('A' + i) : i < 52 ? (uint8_t)('a' + (i - 26)) : i < 62 ? (uint8_t)('0' + (i - 52)) : i == 62 ? '+' : '/'; }
static int b64v(uint8_t c) { return (c >= 'A' && c <= 'Z') ? c - 'A' : (c >= 'a' && c <= 'z') ? c - 'a' + 26 : (c >= '0' && c <= '9') ? c - '0' + 52 : c == '+' ? 62 : c == '/' ? 63 : -1; }
static uint8_t hexc(uint32_t i) { return i < 10 ? (uint8_t)('0' + i) : (uint8_t)('a' + (i - 10)); }
static int hexv(uint8_t c) { return (c >= '0' && c <= '9') ? c - '0' : (c >= 'a' && c <= 'f') ? c - 'a' + 10 : (c >= 'A' && c <= 'F') ? c - 'A' + 10 : -1; }
static void ref_b64(const uint8_t *d, uint64_t n, uint8_t *o, uint64_t *ol) {
  uint64_t p = 0;
  for (uint64_t g = 0; g < (N + 2) / 3; g++) if (g * 3 < n) {
    uint64_t r = n - g * 3; if (r > 3) r = 3;
    uint32_t v = ((uint32_t)d[g * 3] << 16) | (r > 1 ? (uint32_t)d[g * 3 + 1] << 8 : 0) | (r > 2 ? (uint32_t)d[g * 3 + 2] : 0);
    o[p++] = b64c((v >> 18) & 63); o[p++] = b64c((v >> 12) & 63);
    o[p++] = r > 1 ? b64c((v >> 6) & 63) : '='; o[p++] = r > 2 ? b64c(v & 63) : '=';
  }
  *ol = p;
}

#if OP == 1
int vp_harness_main(void) {
#ifdef TFIX
  uint8_t b[3]; uint64_t t = TFIX;
#else
  uint8_t b[3]; uint64_t t = vp_in_u64(); ASSUME(t >= 1 && t <= 3);
#endif
  for (int i = 0; i < 3; i++) b[i] = vp_in_u8();
  uint8_t *in = (uint8_t *)vp_exact(t); for (uint64_t i = 0; i < 3; i++) if (i < t) in[i] = b[i];
  str_t e; vp_b64_encode(&e, in, t);
  ASSERT(!vp_exc_pending, "encoding does not throw");
  ASSERT(S_inv(&e.f0) && e.f0.f1 == 4, "one group encodes to exactly 4 characters");
  uint32_t v = ((uint32_t)b[0] << 16) | (t > 1 ? (uint32_t)b[1] << 8 : 0) | (t > 2 ? (uint32_t)b[2] : 0);
  ASSERT(e.f0.f0[0] == b64c((v >> 18) & 63), "1st character = alphabet[bits 23..18]");
  ASSERT(e.f0.f0[1] == b64c((v >> 12) & 63), "2nd character = alphabet[bits 17..12] (missing bytes read as zero)");
  ASSERT(e.f0.f0[2] == (t > 1 ? b64c((v >> 6) & 63) : '='), "3rd character = alphabet[bits 11..6] or '='");
  ASSERT(e.f0.f0[3] == (t > 2 ? b64c(v & 63) : '='), "4th character = alphabet[bits 5..0] or '='");
  uint8_t *o = (uint8_t *)vp_exact(t);
  ASSERT(vp_b64_decode_to(&e, o, t) == (int64_t)t, "caller-buffer decoder returns the original length (exactly-sized output)");
  for (uint64_t i = 0; i < 3; i++) if (i < t) ASSERT(o[i] == b[i], "caller-buffer decoder returns the original bytes");
  cbuf_t d; vp_b64_decode(&d, &e);
  ASSERT(!vp_exc_pending && S_inv(&d) && d.f1 == t, "allocating decoder returns a valid buffer of the original length");
  for (uint64_t i = 0; i < 3; i++) if (i < t) ASSERT(d.f0[i] == b[i], "allocating decoder returns the original bytes");
  vp_buf_dtor(&d); vp_str_dtor(&e);
  ASSERT(vp_live_blocks == 0, "no leak");
  REACH("end of harness");
  return 0;
}
#elif OP == 2 || OP == 3
int vp_harness_main(void) {
#ifdef NFIX
  uint8_t b[N + 1]; uint64_t n = NFIX;   /* concrete length per query: sizes, storage mode and loop bounds are concrete */
#else
  uint8_t b[N + 1]; uint64_t n = vp_in_u64(); ASSUME(n <= N);
#endif
  for (int i = 0; i < N; i++) b[i] = vp_in_u8();
  uint8_t *in = (uint8_t *)vp_exact(n); for (uint64_t i = 0; i < N; i++) if (i < n) in[i] = b[i];
  uint8_t usenull = vp_in_u8(); ASSUME(usenull <= 1); if (usenull) ASSUME(n == 0);
  str_t e; uint8_t ref[SMAX + 4]; uint64_t rl = 0;
#ifdef FAULT
  { uint32_t fk = vp_in_u32(); ASSUME(fk < FAULT); vp_fail_alloc_at = vp_alloc_count + (int)fk; }   /* C19 */
#endif
#if OP == 2
  vp_b64_encode(&e, usenull ? (uint8_t *)0 : in, n);
  ref_b64(b, n, ref, &rl);
  ASSERT(rl == 4 * ((n + 2) / 3) && vp_b64_encode_size(n) == rl, "length is 4*ceil(n/3)");
#else
  vp_hex_encode(&e, usenull ? (uint8_t *)0 : in, n);
  for (uint64_t i = 0; i < N; i++) if (i < n) { ref[2 * i] = hexc(b[i] >> 4); ref[2 * i + 1] = hexc(b[i] & 15); }
  rl = 2 * n;
#endif
#ifdef FAULT
  vp_fail_alloc_at = -1;
  if (vp_exc_pending) { ASSERT(vp_exc_kind == VP_EXC_BAD_ALLOC, "allocation failure surfaces as std::bad_alloc"); REACH("allocation-failure path"); vp_clear_exception();
    for (uint64_t i = 0; i < N; i++) if (i < n) ASSERT(in[i] == b[i], "input unchanged"); ASSERT(vp_live_blocks == 0, "no leak after the failed encoding"); REACH("end of harness"); return 0; }
#endif
  ASSERT(!vp_exc_pending, "encoding does not throw");
  ASSERT(S_inv(&e.f0), "result is a valid string (exact storage, terminator)");
  ASSERT(e.f0.f1 == rl, "result length");
  for (uint64_t i = 0; i < SMAX; i++) if (i < rl && i < e.f0.f1) ASSERT(e.f0.f0[i] == ref[i], "result character equals the standard encoding");
  for (uint64_t i = 0; i < N; i++) if (i < n) ASSERT(in[i] == b[i], "input unchanged");
  /* round trip through both decoders */
  uint8_t *o = (uint8_t *)vp_exact(n);
#if OP == 2
  ASSERT(vp_b64_decode_to(&e, o, n) == (int64_t)n, "caller-buffer decoder: original length");
  cbuf_t d; vp_b64_decode(&d, &e);
#else
  ASSERT(vp_hex_decode_to(&e, o, n) == (int64_t)n, "caller-buffer decoder: original length");
  cbuf_t d; vp_hex_decode(&d, &e);
#endif
  for (uint64_t i = 0; i < N; i++) if (i < n) ASSERT(o[i] == b[i], "caller-buffer decoder: original bytes");
  ASSERT(!vp_exc_pending && S_inv(&d) && d.f1 == n, "allocating decoder: valid buffer of the original length");
  for (uint64_t i = 0; i < N; i++) if (i < n && i < d.f1) ASSERT(d.f0[i] == b[i], "allocating decoder: original bytes");
#if OP == 3
  { /* upper-case hex decodes to the same bytes */
    uint8_t *u = (uint8_t *)vp_exact(rl); for (uint64_t i = 0; i < 2 * N; i++) if (i < rl) u[i] = (ref[i] >= 'a' && ref[i] <= 'f') ? (uint8_t)(ref[i] - 32) : ref[i];
    str_t us; vp_str_from_validated(&us, u, rl);
    uint8_t *o2 = (uint8_t *)vp_exact(n);
    ASSERT(vp_hex_decode_to(&us, o2, n) == (int64_t)n, "upper-case hex decodes");
    for (uint64_t i = 0; i < N; i++) if (i < n) ASSERT(o2[i] == b[i], "upper-case hex decodes to the same bytes");
    vp_str_dtor(&us); }
#endif
  vp_buf_dtor(&d); vp_str_dtor(&e);
  ASSERT(vp_live_blocks == 0, "no leak");
  REACH("end of harness");
  return 0;
}
#else
/* ---- C15: decoders on arbitrary text */
#if OP == 4 || OP == 6
#define DMAX (K / 2)
#else
#define DMAX ((K / 4) * 3)
#endif
int vp_harness_main(void) {
  str_t s; uint8_t t[SMAX + 1];
#ifdef NFIX
  S_mk_n(&s.f0, t, -1, NFIX);
#else
  S_mk(&s.f0, t);
#endif
  uint64_t n = s.f0.f1; ASSUME(n <= K);
  /* acceptance predicate and reference decoding, from the property text */
  int valid; uint64_t dl = 0; uint8_t ref[DMAX + 3]; int lenok;
#if OP == 4 || OP == 6
  lenok = (n % 2) == 0; valid = lenok;
  for (uint64_t i = 0; i < K; i++) if (i < n && hexv(t[i]) < 0) valid = 0;
  dl = n / 2;
  for (uint64_t i = 0; i < K / 2; i++) if (i < dl && valid) ref[i] = (uint8_t)((hexv(t[2 * i]) << 4) | hexv(t[2 * i + 1]));
#else
  lenok = (n % 4) == 0; valid = lenok;
  uint64_t pad = 0;
  if (n >= 1 && t[n - 1] == '=') pad++;
  if (n >= 2 && t[n - 2] == '=') pad++;
  /* '=' only as the last or the last two characters: every other position must be an alphabet character */
  for (uint64_t i = 0; i < K; i++) if (i < n) {
    int is_pad_pos = (i == n - 1 && t[i] == '=') || (i + 2 == n && t[i] == '=' && t[n - 1] == '=');
    if (!is_pad_pos && b64v(t[i]) < 0) valid = 0;
  }
  dl = (n / 4) * 3 - pad;
  if (valid) for (uint64_t g = 0; g < K / 4; g++) if (g * 4 < n) {
    uint32_t v = 0; for (int j = 0; j < 4; j++) { int x = b64v(t[g * 4 + j]); v = (v << 6) | (uint32_t)(x < 0 ? 0 : x); }
    ref[g * 3] = (uint8_t)(v >> 16); ref[g * 3 + 1] = (uint8_t)(v >> 8); ref[g * 3 + 2] = (uint8_t)v;
  }
#endif
#if OP == 4 || OP == 5
  uint64_t osz = vp_in_u64();                                /* ANY 64-bit output_size */
  uint8_t usenull = vp_in_u8(); ASSUME(usenull <= 1);
  uint64_t objsz = osz < DMAX + 2 ? osz : DMAX + 2;          /* exactly output_size bytes (capped above anything a correct decoder writes) */
  uint8_t *o = (uint8_t *)vp_exact(objsz); uint8_t snap[DMAX + 3];
  for (uint64_t i = 0; i < DMAX + 2; i++) if (i < objsz) { snap[i] = vp_in_u8(); o[i] = snap[i]; }
#if OP == 4
  int64_t r = vp_hex_decode_to(&s, usenull ? (uint8_t *)0 : o, osz);
#else
  int64_t r = vp_b64_decode_to(&s, usenull ? (uint8_t *)0 : o, osz);
#endif
  ASSERT(!vp_exc_pending, "caller-buffer decoder does not throw");
  if (usenull) {
    ASSERT(r == (lenok ? (int64_t)dl : -1), "null output: the decoded length implied by the input's length and padding (-1 for an impossible length)");
  } else {
    int ok = valid && dl <= osz;
    ASSERT((r >= 0) == ok, "succeeds exactly for a valid encoding that fits output_size; otherwise returns -1");
    if (r < 0) ASSERT(r == -1, "failure is reported as -1");
    if (ok && r >= 0) {
      ASSERT(r == (int64_t)dl, "returns the number of bytes written = the decoded length");
      for (uint64_t i = 0; i < DMAX; i++) if (i < dl) ASSERT(o[i] == ref[i], "decoded byte");
      for (uint64_t i = 0; i < DMAX + 2; i++) if (i >= dl && i < objsz) ASSERT(o[i] == snap[i], "bytes of the caller's buffer beyond the returned length are untouched");
    }
#if (OP == 4 && NFIX >= 2 && NFIX % 2 == 0) || (OP == 5 && NFIX >= 4 && NFIX % 4 == 0)
    if (valid && dl > osz) REACH("valid input that does not fit");
#endif
  }
#else
  cbuf_t d;
#if OP == 6
  vp_hex_decode(&d, &s);
#else
  vp_b64_decode(&d, &s);
#endif
  if (vp_exc_pending) {
    ASSERT(vp_exc_kind == VP_EXC_CODEC, "the allocating decoder throws ST::codec_error and nothing else");
    ASSERT(!valid, "throws only for an invalid encoding");
#if NFIX >= 1
    REACH("codec_error path");
#endif
    vp_clear_exception();
  } else {
    ASSERT(valid, "invalid encoding => ST::codec_error");
    ASSERT(S_inv(&d) && d.f1 == dl, "valid buffer of the decoded length");
    for (uint64_t i = 0; i < DMAX; i++) if (i < dl && i < d.f1) ASSERT(d.f0[i] == ref[i], "decoded byte");
    vp_buf_dtor(&d);
  }
#endif
  for (uint64_t i = 0; i < K; i++) if (i < n) ASSERT(s.f0.f0[i] == t[i], "input string unchanged");
  S_destroy(&s.f0);
  ASSERT(vp_live_blocks == 0, "no leak (also on the throwing path)");
  REACH("end of harness");
  return 0;
}
#endif

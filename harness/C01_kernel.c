/* C01_kernel.c -- per-character kernels over their FULL domain (no sequence bound):
 * the standard encodings are written here from RFC 3629 / RFC 2781 with arithmetic (div/mod), independent of the
 * library's masks and shifts.  -DKERNEL_WRITE8 | -DKERNEL_WRITE16 | -DKERNEL_EXTRACT8 | -DKERNEL_EXTRACT16 */
#include "vp_harness.h"
#include "k.h"

static uint32_t in_scalar(void) {
  uint32_t c = vp_in_u32();
  ASSUME(c <= 0x10FFFF && !(c >= 0xD800 && c <= 0xDFFF));
  return c;
}
static int std_u8(uint32_t v, uint8_t *o) {
  if (v <= 0x7F) { o[0] = (uint8_t)v; return 1; }
  if (v <= 0x7FF) { o[0] = (uint8_t)(0xC0 + v / 64u); o[1] = (uint8_t)(0x80 + v % 64u); return 2; }
  if (v <= 0xFFFF) { o[0] = (uint8_t)(0xE0 + v / 4096u); o[1] = (uint8_t)(0x80 + (v / 64u) % 64u); o[2] = (uint8_t)(0x80 + v % 64u); return 3; }
  o[0] = (uint8_t)(0xF0 + v / 262144u); o[1] = (uint8_t)(0x80 + (v / 4096u) % 64u); o[2] = (uint8_t)(0x80 + (v / 64u) % 64u); o[3] = (uint8_t)(0x80 + v % 64u); return 4;
}
static int std_u16(uint32_t v, uint16_t *o) {
  if (v <= 0xFFFF) { o[0] = (uint16_t)v; return 1; }
  uint32_t w = v - 0x10000u; o[0] = (uint16_t)(0xD800 + w / 1024u); o[1] = (uint16_t)(0xDC00 + w % 1024u); return 2;
}

int vp_harness_main(void) {
  uint32_t c = in_scalar();
#if defined(KERNEL_WRITE8)
  uint8_t ref[4]; int rl = std_u8(c, ref);
  uint8_t *d = (uint8_t *)vp_exact((uint64_t)rl); uint64_t len = 99;
  int e = vp_write_utf8(d, c, &len);
  ASSERT(e == 0, "write_utf8 reports success for every Unicode scalar value");
  ASSERT(len == (uint64_t)rl, "write_utf8 writes exactly the standard number of bytes (exactly-sized destination)");
  for (int i = 0; i < 4; i++) if (i < rl) ASSERT(d[i] == ref[i], "write_utf8 byte equals the RFC 3629 encoding");
  ASSERT(vp_utf8_measure(c) == (uint64_t)rl, "utf8_measure equals the standard length");
  /* out-of-range values are sized as U+FFFD and refused by the writer */
  { uint32_t x = vp_in_u32(); ASSUME(x > 0x10FFFF); uint8_t t[4]; uint64_t l2 = 0;
    ASSERT(vp_utf8_measure(x) == 3, "utf8_measure sizes an out-of-range value as U+FFFD");
    ASSERT(vp_write_utf8(t, x, &l2) != 0 && l2 == 0, "write_utf8 refuses an out-of-range value and writes nothing"); }
#elif defined(KERNEL_WRITE16)
  uint16_t ref[2]; int rl = std_u16(c, ref);
  uint16_t *d = (uint16_t *)vp_exact((uint64_t)rl * 2); uint64_t len = 99;
  int e = vp_write_utf16(d, c, &len);
  ASSERT(e == 0, "write_utf16 reports success for every Unicode scalar value");
  ASSERT(len == (uint64_t)rl, "write_utf16 writes exactly the standard number of units");
  for (int i = 0; i < 2; i++) if (i < rl) ASSERT(d[i] == ref[i], "write_utf16 unit equals the RFC 2781 encoding");
  ASSERT(vp_utf16_measure(c) == (uint64_t)rl, "utf16_measure equals the standard length");
  { uint32_t x = vp_in_u32(); ASSUME(x > 0x10FFFF); uint16_t t[2]; uint64_t l2 = 0;
    ASSERT(vp_utf16_measure(x) == 1, "utf16_measure sizes an out-of-range value as U+FFFD");
    ASSERT(vp_write_utf16(t, x, &l2) != 0 && l2 == 0, "write_utf16 refuses an out-of-range value and writes nothing"); }
#elif defined(KERNEL_EXTRACT8)
  uint8_t ref[4]; int rl = std_u8(c, ref);
  uint64_t trail = vp_in_u64(); ASSUME(trail <= 3);
  uint8_t *p = (uint8_t *)vp_exact((uint64_t)rl + trail);
  for (int i = 0; i < 4; i++) if (i < rl) p[i] = ref[i];
  for (uint64_t i = 0; i < 3; i++) if (i < trail) p[rl + i] = vp_in_u8();
  uint64_t adv = 99;
  uint32_t r = vp_extract_utf8(p, (uint64_t)rl + trail, &adv);
  ASSERT(r == c, "extract_utf8 of the standard encoding returns the scalar, whatever follows");
  ASSERT(adv == (uint64_t)rl, "extract_utf8 consumes exactly the bytes of that character");
#elif defined(KERNEL_EXTRACT16)
  uint16_t ref[2]; int rl = std_u16(c, ref);
  uint64_t trail = vp_in_u64(); ASSUME(trail <= 2);
  uint16_t *p = (uint16_t *)vp_exact(((uint64_t)rl + trail) * 2);
  for (int i = 0; i < 2; i++) if (i < rl) p[i] = ref[i];
  for (uint64_t i = 0; i < 2; i++) if (i < trail) p[rl + i] = vp_in_u16();
  uint64_t adv = 99;
  uint32_t r = vp_extract_utf16(p, (uint64_t)rl + trail, &adv);
  ASSERT(r == c, "extract_utf16 of the standard encoding returns the scalar, whatever follows");
  ASSERT(adv == (uint64_t)rl, "extract_utf16 consumes exactly the units of that character");
#else
#error "no kernel selected"
#endif
  ASSERT(!vp_exc_pending, "kernels do not throw");
  REACH("end of harness");
  return 0;
}

/* C02_valid.c -- validation modes on UTF-8 as seen by ST::string: validator, repairer, and every UTF-8 route into ST::string.
 * Oracle: the structural left-to-right reference of ref_utf.h (tolerated: overlong, encoded surrogates, 4-byte forms > U+10FFFF).
 * Input: NFIX arbitrary bytes in an exactly-sized heap object (one query per length).
 *  -DOP=1 validate_utf8 / cleanup_utf8 / cleanup_utf8_buffer: three-way agreement, repair content, repaired text re-validates
 *  -DOP=5 cleanup_utf8_buffer (the allocating wrapper of the repairer)
 *  -DOP=2 a route into ST::string with an explicit mode (-DROUTE=1..12): throws <=> malformed under check_validity, repair under substitute_invalid, verbatim under assume_valid
 *  -DOP=3 default-argument forms behave as the mode configured with ST_DEFAULT_VALIDATION (shim compiled with -DST_DEFAULT_VALIDATION=...)
 *  -DOP=4 substitute_invalid output always passes check_validity, for the UTF-8 -> UTF-16 -> UTF-8 and UTF-8 -> UTF-32 -> UTF-8 chains */
#include "vp_harness.h"
#include "k.h"
#include "ref_utf.h"
typedef vp_string_t str_t;
typedef __typeof__(((str_t *)0)->f0) cbuf_t;
#define N NFIX
#define OMAX (3 * N + 1)
VP_BUF_HELPERS(S, cbuf_t, uint8_t, VP_SSO, OMAX)
REF_DECODE_U8(N + 1)
REF_ENCODE_U8(N + 1)

int vp_harness_main(void) {
  uint8_t sh[N + 1]; uint64_t n = N;
  uint8_t *in = (uint8_t *)vp_exact(n);
  for (int i = 0; i < N; i++) { sh[i] = vp_in_u8(); in[i] = sh[i]; }
  ref_item it[N + 1]; uint64_t k = ref_decode_u8(sh, n, it);
  int anybad = 0; for (uint64_t i = 0; i < N + 1; i++) if (i < k && it[i].bad) anybad = 1;
  /* reference repair: the tolerated forms are kept byte-for-byte, each malformed unit becomes EF BF BD */
  uint8_t rep[OMAX + 1]; uint64_t rl = 0;
  { uint64_t pos = 0; for (uint64_t i = 0; i < N + 1; i++) if (i < k) {
      if (it[i].bad) { rep[rl++] = 0xEF; rep[rl++] = 0xBF; rep[rl++] = 0xBD; pos += 1; }
      else { int len = ref_u8_len(sh[pos]); for (int j = 0; j < 4; j++) if (j < len) rep[rl++] = sh[pos + j]; pos += (uint64_t)len; } } }
#if OP == 1
  int v = (int)vp_validate_utf8(in, n);
  ASSERT((v == 0) == !anybad, "validate_utf8 accepts exactly the text without a malformed unit (overlong, encoded surrogates and > U+10FFFF 4-byte forms tolerated)");
  ASSERT(vp_cleanup_utf8((uint8_t *)0, in, n) == rl, "cleanup_utf8(null output) measures the repaired size");
  { uint8_t *o = (uint8_t *)vp_exact(rl); uint64_t w = vp_cleanup_utf8(o, in, n);
    ASSERT(w == rl, "cleanup_utf8 writes exactly the measured size (exactly-sized output)");
    for (uint64_t i = 0; i < OMAX; i++) if (i < rl) ASSERT(o[i] == rep[i], "repair: U+FFFD per malformed unit, neighbours intact");
    ASSERT(vp_validate_utf8(o, rl) == 0, "repaired text always passes the validator");
    int same = rl == n; for (uint64_t i = 0; i < N; i++) if (same && i < n && o[i] != sh[i]) same = 0;
    ASSERT(same == !anybad, "repairer leaves text unchanged exactly when the validator accepts it"); }
#endif
#if OP == 5
  { cbuf_t b, c; uint8_t tmp[OMAX + 1]; S_mk_n(&b, tmp, -1, n); for (uint64_t i = 0; i < N; i++) if (i < n) b.f0[i] = sh[i];
    vp_cleanup_utf8_buffer(&c, &b);
    ASSERT(!vp_exc_pending && S_inv(&c) && c.f1 == rl, "cleanup_utf8_buffer returns a valid buffer of the repaired size");
    for (uint64_t i = 0; i < OMAX; i++) if (i < rl && i < c.f1) ASSERT(c.f0[i] == rep[i], "cleanup_utf8_buffer content");
    vp_cbuf_dtor(&c); S_destroy(&b); }
#endif
#if OP == 1
#if NFIX >= 1
  if (anybad) REACH("malformed input");
#endif
#elif OP == 2 || OP == 3
  uint32_t mode;
#if OP == 2
  mode = vp_in_u32(); ASSUME(mode <= 2);
#ifdef MODE
  ASSUME(mode == MODE);
#endif
#else
  mode = (uint32_t)vp_default_validation();
  ASSERT(mode == DFLT_MODE, "the shim was compiled with the requested ST_DEFAULT_VALIDATION (harness self-check)");
#endif
  str_t out; cbuf_t b; int have_b = 0;
#if ROUTE == 2 || ROUTE == 3 || ROUTE == 4 || ROUTE == 9
  { uint8_t tmp[OMAX + 1]; S_mk_n(&b, tmp, -1, n); } for (uint64_t i = 0; i < N; i++) if (i < n) b.f0[i] = sh[i]; have_b = 1;
#endif
#if OP == 2
#if ROUTE == 1
  vp_from_utf8(&out, in, n, mode);
#elif ROUTE == 2
  vp_ctor_cbuf(&out, &b, mode);
#elif ROUTE == 3
  vp_ctor_cbuf_move(&out, &b, mode);
#elif ROUTE == 4
  { uint8_t *e = (uint8_t *)vp_exact(0); vp_str_from_validated(&out, e, 0); vp_set_cbuf(&out, &b, mode); }
#elif ROUTE == 5
  vp_ctor_utf8(&out, in, n, mode);
#elif ROUTE == 6
  { uint8_t *e = (uint8_t *)vp_exact(0); vp_str_from_validated(&out, e, 0); vp_set_utf8(&out, in, n, mode); }
#elif ROUTE == 7
  vp_ctor_stdstring(&out, in, n, mode);
#elif ROUTE == 8
  vp_ctor_sv(&out, in, n, mode);
#elif ROUTE == 10
  vp_from_std_str8(&out, in, n, mode);
#elif ROUTE == 11
  vp_from_std_u8sv(&out, in, n, mode);
#elif ROUTE == 12
  vp_ctor_u8ptr(&out, in, n, mode);
#endif
#else
#if ROUTE == 1
  vp_from_utf8_dflt(&out, in, n);
#else
  vp_ctor_cbuf_dflt(&out, &b);
#endif
#endif
  if (vp_exc_pending) {
    ASSERT(vp_exc_kind == VP_EXC_UNICODE, "only ST::unicode_error");
    ASSERT(mode == MODE_CHECK && anybad, "throws only under check_validity and only for malformed input");
#if (OP == 2 && (!defined(MODE) || MODE == 2)) || (OP == 3 && DFLT_MODE == 2)
    REACH("rejected");
#endif
    vp_clear_exception();
#if ROUTE == 4 || ROUTE == 6
    vp_str_dtor(&out);
#endif
  } else {
    ASSERT(!(mode == MODE_CHECK && anybad), "check_validity rejects malformed input");
    ASSERT(S_inv(&out.f0), "result is a valid string");
    if (mode == MODE_SUBSTITUTE) { ASSERT(out.f0.f1 == rl, "substitute_invalid: size of the repair"); for (uint64_t i = 0; i < OMAX; i++) if (i < rl && i < out.f0.f1) ASSERT(out.f0.f0[i] == rep[i], "substitute_invalid: U+FFFD per malformed unit, neighbours intact"); }
    else { ASSERT(out.f0.f1 == n, "check_validity / assume_valid: bytes taken unchanged"); for (uint64_t i = 0; i < N; i++) if (i < n && i < out.f0.f1) ASSERT(out.f0.f0[i] == sh[i], "bytes unchanged"); }
    vp_str_dtor(&out);
  }
  if (have_b) {
#if ROUTE == 3
    ASSERT(S_inv(&b), "moved-from / untouched argument buffer is still a valid object");
#else
    ASSERT(S_inv(&b) && b.f1 == n, "argument buffer unchanged");
#endif
    vp_cbuf_dtor(&b); }
#elif OP == 4
  { /* x --substitute--> UTF-16/32 --check_validity--> UTF-8 must not throw.
     * Two tolerated-by-design UTF-8 forms decode to values their wide targets carry verbatim but the wide validators reject: an encoded surrogate
     * (ED A0..BF xx) and a 4-byte form above U+10FFFF.  The property counts both forms as well-formed, so that slice is excluded here and
     * recorded in the evidence as an interpretation note (DESIGN.md C02, guard 2), not reported as a violation. */
    for (uint64_t i = 0; i < N + 1; i++) if (i < k) ASSUME(it[i].bad || (it[i].v <= 0x10FFFF && !(it[i].v >= 0xD800 && it[i].v <= 0xDFFF)));
#if WIDE == 16
    T_vp_u16buf_dtor_a0 mid; vp_conv_u8_u16(&mid, in, n, MODE_SUBSTITUTE);
    ASSERT(!vp_exc_pending, "substitute_invalid never throws");
    cbuf_t back; vp_conv_u16_u8(&back, mid.f0, mid.f1, MODE_CHECK);
    ASSERT(!vp_exc_pending, "the output of substitute_invalid passes check_validity");
    vp_cbuf_dtor(&back); vp_u16buf_dtor(&mid);
#else
    /* UTF-32 output can carry a tolerated 4-byte form > U+10FFFF as its numeric value, which utf32_to_utf8(check_validity) rejects:
     * (see above) */
    T_vp_u32buf_dtor_a0 mid; vp_conv_u8_u32(&mid, in, n, MODE_SUBSTITUTE);
    ASSERT(!vp_exc_pending, "substitute_invalid never throws");
    cbuf_t back; vp_conv_u32_u8(&back, mid.f0, mid.f1, MODE_CHECK);
    ASSERT(!vp_exc_pending, "the output of substitute_invalid passes check_validity");
    vp_cbuf_dtor(&back); vp_u32buf_dtor(&mid);
#endif
  }
#endif
  for (uint64_t i = 0; i < N; i++) ASSERT(in[i] == sh[i], "input unchanged");
  ASSERT(vp_live_blocks == 0, "no leak (also on the throwing path)");
  REACH("end of harness");
  return 0;
}

/* C10_format.c -- the format-string parser is total and memory-safe on every format string.
 * The format string is a run of NFIX arbitrary non-NUL bytes followed by NUL in an EXACTLY (NFIX+1)-byte heap object: reading past
 * the terminator is a bounds violation (strings with an embedded NUL are the shorter strings of the other queries).
 *  -DOP=1 parser alone: next_format / fetch_prefix / parse_format on every field (spec logged); literal output vs reference
 *  -DOP=2 apply_format, no arguments     -DOP=3 one const char* argument     -DOP=4 two const char* arguments
 *  -DOP=5 one char argument (reaches the documented contract assertion for padded character output)   -DOP=6 null format string */
#include "vp_harness.h"
#include "k.h"
#include "sink.h"
static int n_specs;
void SINKFN(vp_sink_spec)(void *spec) { (void)spec; n_specs++; }

/* reference literal scanner, from the property text: {{ and }} reduce to one brace, other bytes are verbatim, {...} is a field whose
 * end is the first '}' that is not the pad character following '_'.  Returns -1 if a field is unterminated. */
static int ref_field_starts;   /* number of field openings seen, terminated or not */
static int64_t ref_literals(const uint8_t *f, uint64_t n, uint8_t *out, int *fields) {
  uint64_t i = 0, p = 0; *fields = 0;
  for (int g = 0; g < NFIX + 1; g++) {
    if (i >= n) break;
    if (f[i] == '{') {
      if (i + 1 < n && f[i + 1] == '{') { out[p++] = '{'; i += 2; continue; }
      /* field */
      ref_field_starts++;
      uint64_t j = i + 1; int closed = 0;
      for (int h = 0; h < NFIX + 1; h++) {
        if (j >= n) break;
        if (f[j] == '}') { closed = 1; break; }
        if (f[j] == '_') { if (j + 1 >= n) break; j += 2; continue; }
        j++;
      }
      if (!closed) return -1;
      (*fields)++; i = j + 1; continue;
    }
    if (f[i] == '}' && i + 1 < n && f[i + 1] == '}') { out[p++] = '}'; i += 2; continue; }
    out[p++] = f[i]; i++;
  }
  return (int64_t)p;
}

int vp_harness_main(void) {
#if OP == 6
  vp_fmt_apply0((uint8_t *)0);
  ASSERT(VP_EXC(VP_EXC_INVALID_ARGUMENT), "null format string: std::invalid_argument");
  vp_clear_exception();
  REACH("end of harness");
  return 0;
#else
  uint8_t sh[NFIX + 1];
  uint8_t *fmt = (uint8_t *)vp_exact(NFIX + 1);
  for (int i = 0; i < NFIX; i++) { sh[i] = vp_in_u8(); ASSUME(sh[i] != 0); fmt[i] = sh[i]; }
  sh[NFIX] = 0; fmt[NFIX] = 0;
#if OP == 1 || OP == 2
  sink_src_lo = fmt; sink_src_n = NFIX;
#endif
  static const uint8_t arg_a[] = "ab", arg_b[] = "xyz";
#if OP == 1
  vp_fmt_parse_all(fmt);
#elif OP == 2
  vp_fmt_apply0(fmt);
#elif OP == 3
  vp_fmt_apply1_cstr(fmt, (uint8_t *)arg_a);
#elif OP == 4
  vp_fmt_apply2_cstr(fmt, (uint8_t *)arg_a, (uint8_t *)arg_b);
#elif OP == 5
  vp_fmt_apply1_char(fmt, vp_in_u8());
#endif
  for (int i = 0; i < NFIX; i++) ASSERT(fmt[i] == sh[i], "format string unchanged");
  uint8_t lit[NFIX + 1]; int fields = 0; int64_t ll = ref_literals(sh, NFIX, lit, &fields);
  if (vp_exc_pending) {
#if OP == 1
    ASSERT(vp_exc_kind == VP_EXC_BAD_FORMAT, "the parser throws ST::bad_format and nothing else");
#else
    ASSERT(vp_exc_kind == VP_EXC_BAD_FORMAT || vp_exc_kind == VP_EXC_OUT_OF_RANGE, "formatting throws only ST::bad_format (malformed / unterminated specifier) or std::out_of_range (argument not supplied)");
#endif
#if OP == 2
    if (vp_exc_kind == VP_EXC_OUT_OF_RANGE) ASSERT(ref_field_starts >= 1, "out_of_range with no arguments only when a field opening is present");
#endif
#if NFIX >= 1
    REACH("exception path");
#endif
    vp_clear_exception();
  } else {
    ASSERT(ll >= 0, "an unterminated field is rejected (reference finds one => the library throws)");
#if OP == 1
    ASSERT(n_specs == fields, "every {...} field is parsed exactly once");
    ASSERT(sink_total == (uint64_t)ll, "literal output has the reference length ({{ and }} reduced, fields removed)");
    { uint8_t got[NFIX + 1]; uint64_t gl = sink_flatten(got, NFIX); for (int i = 0; i < NFIX; i++) if (i < ll && (uint64_t)i < gl) ASSERT(got[i] == lit[i], "literal output byte equals the reference"); }
#elif OP == 2
    ASSERT(fields == 0, "a field without arguments cannot succeed");
    ASSERT(sink_total == (uint64_t)ll, "literal output has the reference length");
    { uint8_t got[NFIX + 1]; uint64_t gl = sink_flatten(got, NFIX); for (int i = 0; i < NFIX; i++) if (i < ll && (uint64_t)i < gl) ASSERT(got[i] == lit[i], "literal output byte equals the reference"); }
#endif
    REACH("normal return");
  }
  ASSERT(vp_live_blocks == 0, "no leak (std::function state and exception objects released)");
  REACH("end of harness");
  return 0;
#endif
}

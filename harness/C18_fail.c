/* C18_fail.c -- a failed operation leaves its target and its arguments unchanged.
 * Target and argument are ARBITRARY VALID states (both storage modes: small-string limit configured to 4), data are arbitrary units, so malformed
 * input is included, not enumerated.  If an exception is pending after the call: it is one of the expected types; target bytes/size unchanged; an
 * rvalue argument still holds its value; Inv for all; destroying everything leaves no live block.  Witness: the throwing path is reachable.
 *  -DOP=1 set(const char_buffer&, mode) 2 set(char_buffer&&, mode) 3 operator=(const char_buffer&) 4 operator=(char_buffer&&) 5 set(ptr,n,mode) 6 operator=(const char*)
 *      7 operator=(utf16_buffer) 8 operator=(utf32_buffer) 9 operator+=(char32_t) 10 operator+=(const char*) 11 string + char32_t
 *     12 string_stream << const char16_t*   13 string_stream << const char32_t*
 *     14 string(char_buffer&&, mode) [constructor: no previous target; the rvalue argument must survive]   15 string(const char_buffer&, mode)
 *  -DNA=<argument units (concrete)>  -DTMAX=<max target size> */
#include "vp_harness.h"
#include "k.h"
#include "ref_utf.h"
typedef vp_string_t str_t;
typedef __typeof__(((str_t *)0)->f0) cbuf_t;
#ifndef NA
#define NA 2
#endif
#ifndef TMAX
#define TMAX 5
#endif
#define MX (TMAX > NA + 4 ? TMAX : NA + 4)
VP_BUF_HELPERS(S, cbuf_t, uint8_t, VP_SSO, MX)

#if OP == 12 || OP == 13
typedef vp_sstream_t ss_t;
#define STACK VP_STACK
#endif

int vp_harness_main(void) {
#if OP == 14 || OP == 15
  uint32_t mode = vp_in_u32(); ASSUME(mode <= 2);
#ifdef MODE
  ASSUME(mode == MODE);     /* the constructor routes are decided per validation mode (all three at once: out of memory at 20 GB) */
#endif
  cbuf_t b; uint8_t sb[MX + 1]; S_mk_n(&b, sb, -1, NA);
  str_t out; out.f0.f0 = 0; out.f0.f1 = 0;
#if OP == 14
  vp_ctor_cbuf_move(&out, &b, mode);
#else
  vp_ctor_cbuf(&out, &b, mode);
#endif
  if (vp_exc_pending) {
    ASSERT(vp_exc_kind == VP_EXC_UNICODE, "only ST::unicode_error"); vp_clear_exception();
    ASSERT(S_inv(&b) && S_eq(&b, sb, NA), "the argument buffer (lvalue or rvalue) still holds its value after the failed construction");
    REACH("failing path");
  } else {
    ASSERT(S_inv(&b), "argument buffer is a valid object afterwards");
    ASSERT(S_inv(&out.f0), "the constructed string is valid");
    vp_str_dtor(&out);
  }
  vp_cbuf_dtor(&b);
#elif OP <= 11
  str_t t; uint8_t st[MX + 1]; S_mk(&t.f0, st); uint64_t tn = t.f0.f1; ASSUME(tn <= TMAX);
  const uint8_t *tdata = t.f0.f0;
  uint32_t mode = vp_in_u32(); ASSUME(mode <= 2);
#if OP == 1 || OP == 2 || OP == 3 || OP == 4
  cbuf_t b; uint8_t sb[MX + 1]; S_mk_n(&b, sb, -1, NA);
#if OP == 1
  vp_set_cbuf(&t, &b, mode);
#elif OP == 2
  vp_set_cbuf_move(&t, &b, mode);
#elif OP == 3
  vp_assign_cbuf(&t, &b);
#else
  vp_assign_cbuf_move(&t, &b);
#endif
  int threw = vp_exc_pending;
  if (threw) { ASSERT(vp_exc_kind == VP_EXC_UNICODE, "only ST::unicode_error"); vp_clear_exception();
    ASSERT(S_inv(&b) && S_eq(&b, sb, NA), "the argument buffer (lvalue or rvalue) still holds its value after the failure"); }
  else ASSERT(S_inv(&b), "argument buffer is a valid object afterwards");
  vp_cbuf_dtor(&b);
#elif OP == 5 || OP == 6 || OP == 10
  uint8_t sa[NA + 1]; uint8_t *p = (uint8_t *)vp_exact(NA + 1);
  for (int i = 0; i < NA; i++) { sa[i] = vp_in_u8(); ASSUME(sa[i] != 0); p[i] = sa[i]; } p[NA] = 0;
#if OP == 5
  vp_set_utf8(&t, p, NA, mode);
#elif OP == 6
  vp_assign_cstr(&t, p);
#else
  vp_append_cstr(&t, p);
#endif
  int threw = vp_exc_pending;
  if (threw) { ASSERT(vp_exc_kind == VP_EXC_UNICODE, "only ST::unicode_error"); vp_clear_exception(); }
  for (int i = 0; i < NA; i++) ASSERT(p[i] == sa[i], "argument text unchanged");
#elif OP == 7
  /* the argument buffer in the storage mode its size demands (in-object below the limit, heap at or above it) */
  T_vp_assign_u16buf_a1 b; { b.f1 = NA; b.f0 = NA >= LOCAL_LEN(2) ? (uint16_t *)vpx__Znam((NA + 1) * 2) : b.f2.a; for (int i = 0; i < NA; i++) b.f0[i] = vp_in_u16(); b.f0[NA] = 0; }
  vp_assign_u16buf(&t, &b);
  int threw = vp_exc_pending;
  if (NA >= LOCAL_LEN(2)) vpx__ZdaPv((uint8_t *)b.f0);
  if (threw) { ASSERT(vp_exc_kind == VP_EXC_UNICODE, "only ST::unicode_error"); vp_clear_exception(); }
#elif OP == 8
  T_vp_assign_u32buf_a1 b; { b.f1 = NA; b.f0 = NA >= LOCAL_LEN(4) ? (uint32_t *)vpx__Znam((NA + 1) * 4) : b.f2.a; for (int i = 0; i < NA; i++) b.f0[i] = vp_in_u32(); b.f0[NA] = 0; }
  vp_assign_u32buf(&t, &b);
  int threw = vp_exc_pending;
  if (NA >= LOCAL_LEN(4)) vpx__ZdaPv((uint8_t *)b.f0);
  if (threw) { ASSERT(vp_exc_kind == VP_EXC_UNICODE, "only ST::unicode_error"); vp_clear_exception(); }
#elif OP == 9 || OP == 11
  uint32_t c = vp_in_u32();
#if OP == 9
  vp_append_c32(&t, c);
  int threw = vp_exc_pending;
#else
  str_t out; vp_concat_c32(&out, &t, c);
  int threw = vp_exc_pending;
  if (!threw) vp_str_dtor(&out);
#endif
  if (threw) { ASSERT(vp_exc_kind == VP_EXC_UNICODE && c > 0x10FFFF, "appending a code point throws only ST::unicode_error and only for a value above U+10FFFF"); vp_clear_exception(); }
  else ASSERT(c <= 0x10FFFF, "an invalid code point is rejected");
#endif
  if (threw) {
    ASSERT(S_inv(&t.f0), "target still satisfies its invariant after the failure");
    ASSERT(t.f0.f1 == tn && t.f0.f0 == tdata, "target keeps its size and storage after the failure");
    for (uint64_t i = 0; i < TMAX; i++) if (i < tn) ASSERT(t.f0.f0[i] == st[i], "target keeps its bytes after the failure");
    REACH("failing path");
  } else ASSERT(S_inv(&t.f0), "target is a valid string after success");
  vp_str_dtor(&t);
#else
  /* string_stream insertion of wide text: built in a local before the stream is touched */
  ss_t s; uint8_t m[STACK + 1];
  { uint64_t n = vp_in_u64(); ASSUME(n <= STACK); s.f0 = s.f3.a; s.f1 = STACK; s.f2 = n; for (int i = 0; i < STACK; i++) { m[i] = vp_in_u8(); s.f3.a[i] = m[i]; } }
  uint64_t n0 = s.f2;
#if OP == 12
  uint16_t w[NA + 1]; uint16_t *p = (uint16_t *)vp_exact((NA + 1) * 2); for (int i = 0; i < NA; i++) { w[i] = vp_in_u16(); ASSUME(w[i] != 0); p[i] = w[i]; } p[NA] = 0;
  vp_ss_ins_u16(&s, p);
#else
  uint32_t w[NA + 1]; uint32_t *p = (uint32_t *)vp_exact((NA + 1) * 4); for (int i = 0; i < NA; i++) { w[i] = vp_in_u32(); ASSUME(w[i] != 0); p[i] = w[i]; } p[NA] = 0;
  vp_ss_ins_u32(&s, p);
#endif
  if (vp_exc_pending) {
    ASSERT(vp_exc_kind == VP_EXC_UNICODE, "only ST::unicode_error");
    vp_clear_exception();
    ASSERT(s.f2 == n0 && s.f1 == STACK && s.f0 == s.f3.a, "the stream keeps its size and storage after the failure");
    for (uint64_t i = 0; i < STACK; i++) if (i < n0) ASSERT(s.f0[i] == m[i], "the stream keeps its content after the failure");
    REACH("failing path");
  }
  vp_ss_dtor(&s);
#endif
  ASSERT(vp_live_blocks == 0, "no storage leaked (also on the failing path)");
  REACH("end of harness");
  return 0;
}

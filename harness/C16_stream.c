/* C16_stream.c -- string_stream content equals the byte-string model; one inductive step per operation from an ARBITRARY VALID state.
 * Inv(ss): capacity >= STACK, size <= capacity, capacity > STACK <=> data is a live heap block of exactly `capacity` bytes,
 *          capacity == STACK <=> data == the in-object array.  A shadow byte array is the model.
 *  -DOP=1 append(ptr,n)   2 append(z) [NUL-terminated]   3 append_char(ch,count)   4 truncate(n)/truncate()   5 erase(n)
 *      6 move constructor   7 move assignment   8 to_string(utf8, validation) / to_string()   9 destructor   10 default constructor
 *      11 operator<<(ST::string)  12 <<(const char*)  13 <<(char)  14 <<(int)  15 <<(char16_t*)  16 <<(char32_t*)  17 <<(std::string) 18 <<(string_view)
 *  -DCAPK=<k>: capacity of the state is STACK << k (concrete per query)   -DA=<max appended bytes>   [-DTCAPK for the move-assign target] */
#include "vp_harness.h"
#include "k.h"
#include "ref_utf.h"
typedef vp_sstream_t ss_t;   /* { char *f0 m_chars; uint64 f1 m_alloc; uint64 f2 m_size; struct { char a[STACK]; } f3 m_stack } */
typedef vp_string_t str_t;
#define STACK VP_STACK
#ifndef A
#define A 4
#endif
#define CAP (STACK << CAPK)
#define MAXB CAP
#define ADDMAX (A + 8)
VP_BUF_HELPERS(S, __typeof__(((str_t *)0)->f0), uint8_t, VP_SSO, MAXB)

static void ss_mk(ss_t *s, uint8_t *model, int capk) {
  uint64_t cap = (uint64_t)STACK << capk;
  uint64_t n = vp_in_u64(); ASSUME(n <= cap);
  s->f1 = cap; s->f2 = n;
  for (int i = 0; i < STACK; i++) s->f3.a[i] = vp_in_u8();          /* stale bytes allowed */
  if (capk > 0) s->f0 = vpx__Znam(cap); else s->f0 = s->f3.a;
  for (uint64_t i = 0; i < ((uint64_t)STACK << capk); i++) { uint8_t c = vp_in_u8(); s->f0[i] = c; if (i < n) model[i] = c; }
}
static int ss_inv(const ss_t *s) {
  if (s->f1 < STACK || s->f2 > s->f1) return 0;
  if (s->f1 == STACK) return s->f0 == s->f3.a;
  if (s->f1 > ((uint64_t)1 << 20)) return 0;
  return VP_HEAP_EXACT(s->f0, s->f1);
}
/* expected content = the first `keep` bytes of the model followed by xa[0..el) */
static int ss_eq2(const ss_t *s, const uint8_t *model, uint64_t keep, const uint8_t *xa, uint64_t el) {
  if (s->f2 != keep + el) return 0;
  for (uint64_t i = 0; i < CAP; i++) if (i < keep && s->f0[i] != model[i]) return 0;
  for (uint64_t j = 0; j < ADDMAX; j++) if (j < el && s->f0[keep + j] != xa[j]) return 0;
  return 1;
}
static int ss_eq(const ss_t *s, const uint8_t *model, uint64_t n) { uint8_t none[1]; return ss_eq2(s, model, n, none, 0); }
static void ss_destroy(ss_t *s) { if (s->f1 > STACK) vpx__ZdaPv(s->f0); }

int vp_harness_main(void) {
  ss_t s, t; uint8_t m[MAXB + 1], xa[ADDMAX + 1];
#ifdef TCAPK
  uint8_t mt[(STACK << TCAPK) + 1];
#else
  uint8_t mt[1];
#endif
  uint64_t el = 0; int s_alive = 1, t_alive = 0;
#if OP == 10
  vp_ss_ctor(&s);
  ASSERT(ss_inv(&s) && s.f2 == 0 && s.f1 == STACK, "a new stream is empty, in-object, and satisfies Inv");
  vp_ss_dtor(&s); ASSERT(vp_live_blocks == 0, "no leak"); REACH("end of harness"); return 0;
#else
  ss_mk(&s, m, CAPK);
  uint64_t n = s.f2;
  ASSERT(ss_inv(&s), "constructed state satisfies Inv (harness self-check)");
#ifdef FAULT
  { uint32_t fk = vp_in_u32(); ASSUME(fk < FAULT); vp_fail_alloc_at = vp_alloc_count + (int)fk; }   /* C19: exactly this allocation throws std::bad_alloc */
#endif
  uint8_t add[A + 1]; uint64_t an = vp_in_u64(); ASSUME(an <= A);
  for (int i = 0; i < A; i++) add[i] = vp_in_u8();
#if OP == 1 || OP == 17 || OP == 18
  { uint8_t *p = (uint8_t *)vp_exact(an); for (uint64_t i = 0; i < A; i++) if (i < an) p[i] = add[i];
#if OP == 1
    vp_ss_append(&s, p, an);
#elif OP == 17
    vp_ss_ins_stdstring(&s, p, an);
#elif defined(CHAR8_FORM)
    vp_ss_ins_u8sv(&s, p, an);
#else
    vp_ss_ins_sv(&s, p, an);
#endif
    for (uint64_t i = 0; i < A; i++) if (i < an) xa[i] = add[i];
    el = an; if (an > 0 && n + an > CAP) REACH("append grows the buffer"); }
#elif OP == 2 || OP == 12
  { uint8_t *p = (uint8_t *)vp_exact(an + 1); for (uint64_t i = 0; i < A; i++) if (i < an) { ASSUME(add[i] != 0); p[i] = add[i]; } p[an] = 0;
    uint8_t usenull = vp_in_u8(); ASSUME(usenull <= 1); if (usenull) ASSUME(an == 0);
#if OP == 2
    vp_ss_append_auto(&s, usenull ? (uint8_t *)0 : p);
#elif defined(CHAR8_FORM)
    vp_ss_ins_c8z(&s, usenull ? (uint8_t *)0 : p);
#else
    vp_ss_ins_cstr(&s, usenull ? (uint8_t *)0 : p);
#endif
    for (uint64_t i = 0; i < A; i++) if (i < an) xa[i] = add[i];
    el = an; }
#elif OP == 3
  { uint8_t ch = vp_in_u8(); vp_ss_append_char(&s, (int8_t)ch, an); for (uint64_t i = 0; i < A; i++) if (i < an) xa[i] = ch; el = an; if (an > 0 && n + an > CAP) REACH("append_char grows the buffer"); }
#elif OP == 13
  { uint8_t ch = vp_in_u8(); vp_ss_ins_char(&s, (int8_t)ch); xa[0] = ch; el = 1; }
#elif OP == 4
  { uint64_t k = vp_in_u64(); uint8_t dflt = vp_in_u8(); ASSUME(dflt <= 1);
    if (dflt) { vp_ss_truncate0(&s); n = 0; } else { vp_ss_truncate(&s, k); if (k < n) n = k; } }
#elif OP == 5
  { uint64_t k = vp_in_u64(); vp_ss_erase(&s, k); n = k < n ? n - k : 0; }
#elif OP == 6
  { vp_ss_move_ctor(&t, &s); t_alive = 1;
    ASSERT(ss_inv(&t) && ss_eq(&t, m, n), "move construction: the new stream holds the value and satisfies Inv");
    ASSERT(ss_inv(&s) && s.f2 == 0 && s.f1 == STACK, "a moved-from stream is a valid EMPTY stream");
    n = 0; }
#elif OP == 7
  { ss_mk(&t, mt, TCAPK); t_alive = 1;
    vp_ss_move_assign(&t, &s);
    ASSERT(ss_inv(&t) && ss_eq(&t, m, n), "move assignment: the target holds the value and satisfies Inv");
    ASSERT(ss_inv(&s) && s.f2 == 0 && s.f1 == STACK, "a moved-from stream is a valid EMPTY stream");
    n = 0; }
#elif OP == 8
  { /* -DTS_MODE: 0 assume_valid, 1 substitute_invalid, 2 check_validity, 3 Latin-1, 4 default arguments (one mode per query) */
    uint8_t utf8 = TS_MODE != 3; uint32_t val = TS_MODE <= 2 ? TS_MODE : 0; uint8_t dflt = TS_MODE == 4;
    ASSUME(n <= TS_MAXN);
    str_t out;
    if (dflt) vp_ss_to_string_dflt(&out, &s); else vp_ss_to_string(&out, &s, utf8, val);
    /* oracle: validated UTF-8 bytes, or the Latin-1 -> UTF-8 transcoding (reference transcoder of C01/C02) */
    int ascii = 1; for (uint64_t i = 0; i < CAP; i++) if (i < n && m[i] >= 0x80) ascii = 0;
    if (vp_exc_pending) {
      ASSERT(vp_exc_kind == VP_EXC_UNICODE && !ascii && (dflt || (utf8 && val == 2)), "to_string throws only ST::unicode_error, only for non-ASCII bytes under check_validity");
      vp_clear_exception();
    } else {
      ASSERT(S_inv(&out.f0), "to_string returns a valid string");
      if (ascii) { ASSERT(out.f0.f1 == n, "ASCII content: same size"); for (uint64_t i = 0; i < CAP; i++) if (i < n) ASSERT(out.f0.f0[i] == m[i], "ASCII content: same bytes"); }
      else if (!dflt && !utf8) { uint64_t e = 0; for (uint64_t i = 0; i < CAP; i++) if (i < n) e += m[i] >= 0x80 ? 2 : 1; ASSERT(out.f0.f1 == e, "Latin-1 content: size of the UTF-8 transcoding");
        uint64_t p = 0; for (uint64_t i = 0; i < CAP; i++) if (i < n) { if (m[i] < 0x80) { ASSERT(out.f0.f0[p] == m[i], "Latin-1 transcoding byte"); p++; } else { ASSERT(out.f0.f0[p] == (uint8_t)(0xC0 + m[i] / 64u) && out.f0.f0[p + 1] == (uint8_t)(0x80 + m[i] % 64u), "Latin-1 transcoding bytes"); p += 2; } } }
      else if (!dflt && utf8 && val == 0) { ASSERT(out.f0.f1 == n, "assume_valid: bytes taken as they are"); }
      vp_str_dtor(&out);
    } }
#elif OP == 9
  vp_ss_dtor(&s); s_alive = 0;
#elif OP == 11
  { str_t x; uint8_t *p = (uint8_t *)vp_exact(an); for (uint64_t i = 0; i < A; i++) if (i < an) p[i] = add[i];
    vp_str_from_validated(&x, p, an); vp_ss_ins_str(&s, &x);
    for (uint64_t i = 0; i < A; i++) if (i < an) xa[i] = add[i]; el = an; vp_str_dtor(&x); }
#elif OP == 14
  { int64_t v = (int64_t)(int8_t)vp_in_u8();                  /* small values: the digits themselves are C12 */
    vp_ss_ins_int(&s, v); uint64_t mag = v < 0 ? (uint64_t)(-v) : (uint64_t)v;
    if (v < 0) xa[el++] = '-';
    if (mag >= 100) xa[el++] = (uint8_t)('0' + mag / 100); if (mag >= 10) xa[el++] = (uint8_t)('0' + (mag / 10) % 10); xa[el++] = (uint8_t)('0' + mag % 10); }
#elif OP == 15 || OP == 16
  { /* wide text: the UTF-8 transcoding (under the default validation) of <= A/… units is appended */
#if OP == 15
    uint16_t w[3]; uint64_t wn = vp_in_u64(); ASSUME(wn <= 2); for (int i = 0; i < 2; i++) { w[i] = vp_in_u16(); if ((uint64_t)i < wn) ASSUME(w[i] != 0 && !(w[i] >= 0xD800 && w[i] <= 0xDFFF)); }
    uint16_t *p = (uint16_t *)vp_exact((wn + 1) * 2); for (uint64_t i = 0; i < 2; i++) if (i < wn) p[i] = w[i]; p[wn] = 0;
#ifndef WIDE_FORM
#define WIDE_FORM 0
#endif
#if WIDE_FORM == 0
    vp_ss_ins_u16(&s, p);
#elif WIDE_FORM == 1
    vp_ss_ins_u16sv(&s, p, wn);
#else
    vp_ss_ins_u16str(&s, p, wn);
#endif
#else
    uint32_t w[3]; uint64_t wn = vp_in_u64(); ASSUME(wn <= 2); for (int i = 0; i < 2; i++) { w[i] = vp_in_u32(); if ((uint64_t)i < wn) ASSUME(w[i] != 0 && w[i] <= 0x10FFFF && !(w[i] >= 0xD800 && w[i] <= 0xDFFF)); }
    uint32_t *p = (uint32_t *)vp_exact((wn + 1) * 4); for (uint64_t i = 0; i < 2; i++) if (i < wn) p[i] = w[i]; p[wn] = 0;
#ifndef WIDE_FORM
#define WIDE_FORM 0
#endif
#if WIDE_FORM == 0
    vp_ss_ins_u32(&s, p);
#elif WIDE_FORM == 1
    vp_ss_ins_u32sv(&s, p, wn);
#elif WIDE_FORM == 2
    vp_ss_ins_u32str(&s, p, wn);
#elif WIDE_FORM == 3
    vp_ss_ins_wc(&s, p);
#elif WIDE_FORM == 4
    vp_ss_ins_wsv(&s, p, wn);
#else
    vp_ss_ins_wstr(&s, p, wn);
#endif
#endif
    for (uint64_t i = 0; i < 2; i++) if (i < wn) { uint32_t v = w[i];
      if (v <= 0x7F) xa[el++] = (uint8_t)v; else if (v <= 0x7FF) { xa[el++] = (uint8_t)(0xC0 + v / 64u); xa[el++] = (uint8_t)(0x80 + v % 64u); }
      else if (v <= 0xFFFF) { xa[el++] = (uint8_t)(0xE0 + v / 4096u); xa[el++] = (uint8_t)(0x80 + (v / 64u) % 64u); xa[el++] = (uint8_t)(0x80 + v % 64u); }
      else { xa[el++] = (uint8_t)(0xF0 + v / 262144u); xa[el++] = (uint8_t)(0x80 + (v / 4096u) % 64u); xa[el++] = (uint8_t)(0x80 + (v / 64u) % 64u); xa[el++] = (uint8_t)(0x80 + v % 64u); } } }
#else
#error "unknown OP"
#endif
#ifdef FAULT
  vp_fail_alloc_at = -1;
  if (vp_exc_pending) {
    ASSERT(vp_exc_kind == VP_EXC_BAD_ALLOC, "allocation failure surfaces as std::bad_alloc");
    ASSERT(ss_inv(&s), "after a failed growth the stream still satisfies Inv (capacity not relabelled, data pointer not released)");
    ASSERT(ss_eq(&s, m, n), "after a failed growth the stream holds its previous content");
    REACH("allocation-failure path");
    vp_clear_exception(); el = 0;
  }
#endif
  ASSERT(!vp_exc_pending, "the operation does not throw");
  if (s_alive) {
    ASSERT(ss_inv(&s), "Inv preserved (capacity/size/storage mode consistent, heap block exactly `capacity` bytes)");
    ASSERT(ss_eq2(&s, m, n, xa, el), "raw_buffer()[0,size()) equals the byte-string model");
    ASSERT(vp_ss_size(&s) == n + el && vp_ss_raw(&s) == s.f0, "size() / raw_buffer() report the state");
    vp_ss_dtor(&s);
  }
  if (t_alive) vp_ss_dtor(&t);
  ASSERT(vp_live_blocks == 0, "every heap block released exactly once (old block freed on growth, nothing leaked)");
  REACH("end of harness");
  return 0;
#endif
}

/* sink.h -- the observable end of the formatting driver: the shim's `final` format_writer forwards append / append_char here.
 * Each call is recorded as an EVENT (pointer+size, or character+count); sink_flatten() turns the events into bytes afterwards.
 * (Copying bytes inside every call made each append 32 symbolic-index stores and the parser queries 30x slower.)
 * Defined in the harness so that it exists both under CBMC (external vpx_vp_sink_*) and natively (the extern "C" vp_sink_* of the shim). */
#ifndef SINK_H
#define SINK_H
#ifdef __CPROVER__
#define SINKFN(name) vpx_##name
#else
#define SINKFN(name) name
#endif
#ifndef SINK_EVENTS
#define SINK_EVENTS 8
#endif
/* -DSINK_COPY=<n>: append() also copies the first n bytes at call time (needed when the data is a formatter's stack buffer that is
 * dead by the time the harness looks at the log; the format-parser checks keep pointers into the still-live format string instead) */
#ifdef SINK_COPY
static uint8_t ev_data[SINK_EVENTS][SINK_COPY];
#endif
static const uint8_t *ev_ptr[SINK_EVENTS]; static uint64_t ev_size[SINK_EVENTS]; static uint8_t ev_ch[SINK_EVENTS]; static uint8_t ev_is_char[SINK_EVENTS];
static uint64_t sink_total; static int sink_calls;
static const uint8_t *sink_src_lo; static uint64_t sink_src_n;   /* when set: every append() must lie inside [lo, lo+n) */
void SINKFN(vp_sink_append)(uint8_t *data, uint64_t size) {
  if (sink_src_lo && size) {
    ASSERT(VP_SAME_OBJECT(data, sink_src_lo) && VP_POFF(data) >= VP_POFF(sink_src_lo) && (uint64_t)(VP_POFF(data) - VP_POFF(sink_src_lo)) + size <= sink_src_n, "literal text handed to the sink lies inside the format string (before its terminating NUL)");
  }
  ASSERT(sink_calls < SINK_EVENTS, "sink event log large enough (harness bound)");
  if (sink_calls < SINK_EVENTS) {
    ev_ptr[sink_calls] = data; ev_size[sink_calls] = size; ev_is_char[sink_calls] = 0;
#ifdef SINK_COPY
    for (uint64_t i = 0; i < SINK_COPY; i++) if (i < size) ev_data[sink_calls][i] = data[i];
#endif
  }
  sink_calls++; sink_total += size;
}
void SINKFN(vp_sink_append_char)(uint8_t ch, uint64_t count) {
  ASSERT(sink_calls < SINK_EVENTS, "sink event log large enough (harness bound)");
  if (sink_calls < SINK_EVENTS) { ev_ch[sink_calls] = ch; ev_size[sink_calls] = count; ev_is_char[sink_calls] = 1; }
  sink_calls++; sink_total += count;
}
#ifdef SINK_COPY
#define SINK_BYTE(k, i) ((i) < SINK_COPY ? ev_data[k][i] : 0)
#else
#define SINK_BYTE(k, i) (ev_ptr[k][i])
#endif
/* first `cap` bytes of the output; returns min(total, cap) */
static uint64_t sink_flatten(uint8_t *out, uint64_t cap) {
  uint64_t p = 0;
  for (int k = 0; k < SINK_EVENTS; k++) if (k < sink_calls) {
    for (uint64_t i = 0; i < cap; i++) if (i < ev_size[k] && p < cap) { out[p] = ev_is_char[k] ? ev_ch[k] : SINK_BYTE(k, i); p++; }
  }
  return p;
}
#endif

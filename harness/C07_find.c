/* C07_find.c -- searching returns exactly the first/last occurrence, for any haystack, needle, start/limit and case mode.
 * Oracle: the quantified definition (smallest / largest index of a full match inside the permitted range, else -1).
 *  one library call per query: -DFORM=<k> selects the k-th overload of the operation
 *  -DOP=1 find / contains   -DOP=2 find_last   -DOP=3 starts_with / ends_with     -DH=<max haystack> -DM=<max needle> */
#include "vp_harness.h"
#include "k.h"
typedef vp_string_t str_t;
#define NMAX (H > M ? H : M)
VP_BUF_HELPERS(S, __typeof__(((str_t *)0)->f0), uint8_t, VP_SSO, NMAX)

static uint8_t fold(uint8_t c) { return (c >= 'A' && c <= 'Z') ? (uint8_t)(c + 32) : c; }
static int ceq(uint8_t a, uint8_t b, uint32_t ci) { return ci ? fold(a) == fold(b) : a == b; }
static int match_at(const uint8_t *h, uint64_t hn, const uint8_t *nd, uint64_t m, uint64_t i, uint32_t ci) {
  if (i + m > hn) return 0;
  for (uint64_t j = 0; j < M; j++) if (j < m && !ceq(h[i + j], nd[j], ci)) return 0;
  return 1;
}
static int64_t ref_find(const uint8_t *h, uint64_t hn, const uint8_t *nd, uint64_t m, uint64_t start, uint32_t ci) {
  if (m == 0 || start >= hn) return -1;
  for (uint64_t i = 0; i < H; i++) if (i >= start && match_at(h, hn, nd, m, i, ci)) return (int64_t)i;
  return -1;
}
static int64_t ref_find_last(const uint8_t *h, uint64_t hn, const uint8_t *nd, uint64_t m, uint64_t max, uint32_t ci) {
  if (m == 0 || hn == 0) return -1;
  uint64_t lim = max > hn ? hn : max;
  int64_t r = -1;
  for (uint64_t i = 0; i < H; i++) if (i + m <= lim && match_at(h, hn, nd, m, i, ci)) r = (int64_t)i;
  return r;
}

int vp_harness_main(void) {
  str_t h, nd; uint8_t sh[NMAX + 1], sn[NMAX + 1];
#ifndef HAY_HEAP
#define HAY_HEAP -1
#endif
  S_mk_mode(&h.f0, sh, HAY_HEAP); S_mk_mode(&nd.f0, sn, 0);   /* needle: <= M < local_length bytes, in-object */
  uint64_t hn = h.f0.f1, m = nd.f0.f1; ASSUME(hn <= H && m <= M);
  uint32_t ci = vp_in_u32(); ASSUME(ci <= 1);
  uint64_t pos = vp_in_u64();                       /* start position / limit: ANY 64-bit value */
  /* needle as (pointer,length): exactly-sized object, so reading past the needle is a bounds violation */
  uint8_t *np = (uint8_t *)vp_exact(m); for (uint64_t i = 0; i < M; i++) if (i < m) np[i] = sn[i];
  /* needle as NUL-terminated C string: seen up to its first NUL */
  uint64_t z = m; for (uint64_t i = M; i > 0; i--) if (i - 1 < m && sn[i - 1] == 0) z = i - 1;
  uint8_t c = vp_in_u8();
#if OP == 1
  int64_t r = ref_find(sh, hn, sn, m, pos, ci), r0 = ref_find(sh, hn, sn, m, 0, ci);
#if FORM == 1
  ASSERT(vp_find_pn(&h, pos, np, m, ci) == r, "find(start, ptr, len): smallest index >= start of an occurrence, else -1");
#endif
#if FORM == 2
  ASSERT(vp_find_str(&h, pos, &nd, ci) == r, "find(start, ST::string) agrees");
#endif
#if FORM == 3
  ASSERT(vp_find_cstr(&h, pos, nd.f0.f0, ci) == ref_find(sh, hn, sn, z, pos, ci), "find(start, const char*) agrees (needle up to its first NUL)");
#endif
#if FORM == 4
  ASSERT(vp_find0_pn(&h, np, m, ci) == r0, "find(ptr, len) starts at 0");
#endif
#if FORM == 5
  ASSERT(vp_find0_str(&h, &nd, ci) == r0, "find(ST::string) starts at 0");
#endif
#if FORM == 6
  ASSERT(vp_find0_cstr(&h, nd.f0.f0, ci) == ref_find(sh, hn, sn, z, 0, ci), "find(const char*) starts at 0");
#endif
#if FORM == 7
  ASSERT(vp_find_ch(&h, pos, c, ci) == ref_find(sh, hn, &c, 1, pos, ci), "find(start, char) agrees with the one-byte needle");
#endif
#if FORM == 8
  ASSERT(vp_find0_ch(&h, c, ci) == ref_find(sh, hn, &c, 1, 0, ci), "find(char) starts at 0");
#endif
#if FORM == 9
  ASSERT(vp_find_pn(&h, pos, (uint8_t *)0, m, ci) == -1 && vp_find_cstr(&h, pos, (uint8_t *)0, ci) == -1, "null needle: -1");
#endif
#if FORM == 14    /* the const char8_t* overloads: same oracle as the const char* forms */
  ASSERT(vp_find_c8(&h, pos, nd.f0.f0, ci) == ref_find(sh, hn, sn, z, pos, ci), "find(start, const char8_t*) agrees (needle up to its first NUL)");
  ASSERT(vp_find_c8n(&h, pos, np, m, ci) == r, "find(start, const char8_t*, len) agrees");
#endif
#if FORM == 15
  ASSERT(vp_find0_c8(&h, nd.f0.f0, ci) == ref_find(sh, hn, sn, z, 0, ci), "find(const char8_t*) starts at 0");
  ASSERT((vp_contains_c8(&h, nd.f0.f0, ci) != 0) == (ref_find(sh, hn, sn, z, 0, ci) >= 0), "contains(const char8_t*) iff find succeeds");
#endif
#if FORM == 10
  ASSERT((vp_contains_pn(&h, np, m, ci) != 0) == (r0 >= 0), "contains(ptr,len) iff find succeeds");
#endif
#if FORM == 11
  ASSERT((vp_contains_str(&h, &nd, ci) != 0) == (r0 >= 0), "contains(ST::string) iff find succeeds");
#endif
#if FORM == 12
  ASSERT((vp_contains_cstr(&h, nd.f0.f0, ci) != 0) == (ref_find(sh, hn, sn, z, 0, ci) >= 0), "contains(const char*) iff find succeeds");
#endif
#if FORM == 13
  ASSERT((vp_contains_ch(&h, c, ci) != 0) == (ref_find(sh, hn, &c, 1, 0, ci) >= 0), "contains(char) iff find succeeds");
#endif
  if (r > 0 && m >= 2) REACH("occurrence found after the start of the haystack");
#elif OP == 2
  int64_t r = ref_find_last(sh, hn, sn, m, pos, ci), ra = ref_find_last(sh, hn, sn, m, ~(uint64_t)0, ci);
#if FORM == 1
  ASSERT(vp_find_last_pn(&h, pos, np, m, ci) == r, "find_last(limit, ptr, len): largest index of an occurrence lying entirely before the limit, else -1");
#endif
#if FORM == 2
  ASSERT(vp_find_last_str(&h, pos, &nd, ci) == r, "find_last(limit, ST::string) agrees");
#endif
#if FORM == 3
  ASSERT(vp_find_last_cstr(&h, pos, nd.f0.f0, ci) == ref_find_last(sh, hn, sn, z, pos, ci), "find_last(limit, const char*) agrees");
#endif
#if FORM == 4
  ASSERT(vp_find_last0_pn(&h, np, m, ci) == ra, "find_last(ptr, len) searches the whole string");
#endif
#if FORM == 5
  ASSERT(vp_find_last0_str(&h, &nd, ci) == ra, "find_last(ST::string) searches the whole string");
#endif
#if FORM == 6
  ASSERT(vp_find_last0_cstr(&h, nd.f0.f0, ci) == ref_find_last(sh, hn, sn, z, ~(uint64_t)0, ci), "find_last(const char*) searches the whole string");
#endif
#if FORM == 7
  ASSERT(vp_find_last_ch(&h, pos, c, ci) == ref_find_last(sh, hn, &c, 1, pos, ci), "find_last(limit, char) agrees with the one-byte needle");
#endif
#if FORM == 8
  ASSERT(vp_find_last0_ch(&h, c, ci) == ref_find_last(sh, hn, &c, 1, ~(uint64_t)0, ci), "find_last(char) searches the whole string");
#endif
#if FORM == 9
  ASSERT(vp_find_last_pn(&h, pos, (uint8_t *)0, m, ci) == -1 && vp_find_last_cstr(&h, pos, (uint8_t *)0, ci) == -1, "null needle: -1");
#endif
#if FORM == 10
  ASSERT(vp_find_last_c8(&h, pos, nd.f0.f0, ci) == ref_find_last(sh, hn, sn, z, pos, ci), "find_last(limit, const char8_t*) agrees");
#endif
#if FORM == 11
  ASSERT(vp_find_last0_c8(&h, nd.f0.f0, ci) == ref_find_last(sh, hn, sn, z, ~(uint64_t)0, ci), "find_last(const char8_t*) searches the whole string");
#endif
  if (r >= 0 && ra > r) REACH("limit cuts off a later occurrence");
#else
  {
    int pre = m <= hn, suf = m <= hn;
    for (uint64_t j = 0; j < M; j++) if (j < m && m <= hn) { if (!ceq(sh[j], sn[j], ci)) pre = 0; if (!ceq(sh[hn - m + j], sn[j], ci)) suf = 0; }
    int prez = z <= hn, sufz = z <= hn;
    for (uint64_t j = 0; j < M; j++) if (j < z && z <= hn) { if (!ceq(sh[j], sn[j], ci)) prez = 0; if (!ceq(sh[hn - z + j], sn[j], ci)) sufz = 0; }
#if FORM == 1
    ASSERT((vp_starts_with_str(&h, &nd, ci) != 0) == pre, "starts_with(ST::string) iff the string begins with the text (trivially for empty text)");
#endif
#if FORM == 2
    ASSERT((vp_ends_with_str(&h, &nd, ci) != 0) == suf, "ends_with(ST::string) iff the string ends with the text");
#endif
#if FORM == 3
    ASSERT((vp_starts_with_cstr(&h, nd.f0.f0, ci) != 0) == prez, "starts_with(const char*) agrees");
#endif
#if FORM == 4
    ASSERT((vp_ends_with_cstr(&h, nd.f0.f0, ci) != 0) == sufz, "ends_with(const char*) agrees");
#endif
#if FORM == 5
    ASSERT(vp_starts_with_cstr(&h, (uint8_t *)0, ci) != 0 && vp_ends_with_cstr(&h, (uint8_t *)0, ci) != 0, "null text counts as empty");
#endif
#if FORM == 6
    ASSERT((vp_starts_with_c8(&h, nd.f0.f0, ci) != 0) == prez, "starts_with(const char8_t*) agrees");
    ASSERT((vp_ends_with_c8(&h, nd.f0.f0, ci) != 0) == sufz, "ends_with(const char8_t*) agrees");
#endif
    if (pre && m >= 1 && m < hn) REACH("proper prefix matched");
  }
#endif
  ASSERT(!vp_exc_pending, "searching does not throw");
  for (uint64_t i = 0; i < NMAX; i++) { if (i < hn) ASSERT(h.f0.f0[i] == sh[i], "haystack unchanged"); if (i < m) ASSERT(nd.f0.f0[i] == sn[i] && np[i] == sn[i], "needle unchanged"); }
  S_destroy(&h.f0); S_destroy(&nd.f0);
  REACH("end of harness");
  return 0;
}

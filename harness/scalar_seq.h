/* scalar_seq.h -- builds the STANDARD encoding (RFC 3629 / 2781, arithmetic form) of a sequence of arbitrary Unicode scalars
 * with a CONCRETE shape: -DSHAPE_K=<count> -DSHAPE_LENS="{l0,l1,..}" gives the encoded length of each scalar in the
 * source form, the scalar itself stays symbolic inside the range that has this length.  Concrete shapes keep every
 * array index concrete (a symbolic shape ran the SAT back end out of memory at 8 bytes, see DESIGN.md). */
#ifndef SCALAR_SEQ_H
#define SCALAR_SEQ_H
static const int vp_shape_lens[SHAPE_K ? SHAPE_K : 1] = SHAPE_LENS;
/* form: 1 UTF-8, 2 UTF-16, 3/5 UTF-32/wchar_t, 4 Latin-1 */
static uint32_t vp_shape_scalar(int form, int len) {
  uint32_t v = vp_in_u32();
  ASSUME(v <= 0x10FFFF && !(v >= 0xD800 && v <= 0xDFFF));
  if (form == 1) {
    if (len == 1) ASSUME(v <= 0x7F);
    else if (len == 2) ASSUME(v >= 0x80 && v <= 0x7FF);
    else if (len == 3) ASSUME(v >= 0x800 && v <= 0xFFFF);
    else ASSUME(v >= 0x10000);
  } else if (form == 2) {
    if (len == 1) ASSUME(v <= 0xFFFF); else ASSUME(v >= 0x10000);
  } else if (form == 4) ASSUME(v < 0x100);
  return v;
}
#define SHAPE_ENCODE(form, T, sh, n, vals)                                                        \
  do {                                                                                            \
    uint64_t p_ = 0;                                                                              \
    for (int i_ = 0; i_ < SHAPE_K; i_++) {                                                        \
      int l_ = vp_shape_lens[i_]; uint32_t v = vp_shape_scalar((form), l_); (vals)[i_] = v;       \
      if ((form) == 1) {                                                                          \
        if (l_ == 1) (sh)[p_] = (T)v;                                                             \
        else if (l_ == 2) { (sh)[p_] = (T)(0xC0 + v / 64u); (sh)[p_ + 1] = (T)(0x80 + v % 64u); } \
        else if (l_ == 3) { (sh)[p_] = (T)(0xE0 + v / 4096u); (sh)[p_ + 1] = (T)(0x80 + (v / 64u) % 64u); (sh)[p_ + 2] = (T)(0x80 + v % 64u); } \
        else { (sh)[p_] = (T)(0xF0 + v / 262144u); (sh)[p_ + 1] = (T)(0x80 + (v / 4096u) % 64u); (sh)[p_ + 2] = (T)(0x80 + (v / 64u) % 64u); (sh)[p_ + 3] = (T)(0x80 + v % 64u); } \
      } else if ((form) == 2) {                                                                   \
        if (l_ == 1) (sh)[p_] = (T)v;                                                             \
        else { uint32_t w_ = v - 0x10000u; (sh)[p_] = (T)(0xD800 + w_ / 1024u); (sh)[p_ + 1] = (T)(0xDC00 + w_ % 1024u); } \
      } else (sh)[p_] = (T)v;                                                                     \
      p_ += (uint64_t)l_;                                                                         \
    }                                                                                             \
    (n) = p_;                                                                                     \
  } while (0)
#endif

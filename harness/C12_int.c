/* C12_int.c -- integer <-> text.
 *  -DOP=1 uint_formatter<T>: all values of T for one CONSTANT radix/case (-DRADIX -DUPPER -DUT=u8|u16|u32|u64 -DBITS -DDIGITS)
 *  -DOP=2 from_int / from_uint (-DFT=<shim suffix> -DSIGNED): canonical text (sign, digits, case), valid string
 *  -DOP=3 cross-printer agreement: from_int == ST::format == string_stream on the same value (-DFMT="{}"|"{x}"|.. -DWITH_SS)
 *  -DOP=4 to_* with the strto* CONTRACT STUB: value, ok, full_match, base forwarding (-DTO=<name> -DTOSIGNED -DTOBITS)
 *  -DOP=5 16-bit round trip through the strtol MODEL: to_short(from_int(v, base), base) == v, ok and full_match
 *  -DOP=6 extremes, concrete: the most negative value of int/long/long long through format and string_stream with signed-overflow checks on */
#include "vp_harness.h"
#include "k.h"
typedef vp_string_t str_t;
#ifndef DIGITS
#define DIGITS 16
#endif
#define SINK_EVENTS 4
#define SINK_COPY (DIGITS + 2)
#include "sink.h"
void SINKFN(vp_sink_spec)(void *spec) { (void)spec; }
VP_BUF_HELPERS(S, __typeof__(((str_t *)0)->f0), uint8_t, VP_SSO, (DIGITS + 2))
#define CC2_(a, b) a##b
#define CC_(a, b) CC2_(a, b)
static uint8_t digit_char(uint32_t d, int upper) { return (uint8_t)(d < 10 ? '0' + d : (upper ? 'A' : 'a') + d - 10); }
static int digit_val(uint8_t c, int upper) { if (c >= '0' && c <= '9') return c - '0'; if (upper ? (c >= 'A' && c <= 'Z') : (c >= 'a' && c <= 'z')) return c - (upper ? 'A' : 'a') + 10; return 99; }
/* canonical check of a digit string against a magnitude: every digit valid for radix and case, no leading zero (single "0" for zero),
 * Horner evaluation equals the magnitude */
static void check_digits(const uint8_t *t, uint64_t n, uint64_t mag, uint32_t radix, int upper) {
  ASSERT(n >= 1 && n <= DIGITS, "between 1 and <digits of the type> digits");
  uint64_t acc = 0;
  for (uint64_t i = 0; i < DIGITS; i++) if (i < n) {
    int d = digit_val(t[i], upper);
    ASSERT((uint32_t)d < radix, "every character is a digit of the requested radix in the requested case");
    acc = acc * radix + (uint64_t)d;
  }
  ASSERT(acc == mag, "the digits evaluate (Horner) to the value");
  ASSERT(n == 1 || t[0] != '0', "no leading zeros");
}

#ifdef CHAIN
/* the same canonical form stated positionally: reading from the last character, digit k is (mag div radix^k) mod radix, computed as the
 * successive-division chain (floor(floor(m/r)/r) = floor(m/r^2)); after the n digits nothing is left; no leading zero.  Equivalent to the
 * Horner statement above (uniqueness of the positional representation) but free of multiplications, which is what lets the solver decide
 * non-power-of-two radices at 32/64 bits. */
static void check_digits_chain(const uint8_t *t, uint64_t n, uint64_t mag, uint32_t radix, int upper) {
  ASSERT(n >= 1 && n <= DIGITS, "between 1 and <digits of the type> digits");
#if BITS == 64
  uint64_t m = mag;          /* the division chain at the width of the type (the same terms the implementation computes) */
#else
  uint32_t m = (uint32_t)mag;
#endif
  for (uint64_t k = 0; k < DIGITS; k++) if (k < n) {
    uint8_t c = t[n - 1 - k];
    ASSERT(c == digit_char((uint32_t)(m % radix), upper), "digit k from the right is (value div radix^k) mod radix, in the requested case");
    m = m / radix;
  }
  ASSERT(m == 0, "the digits account for the whole value");
  ASSERT(n == 1 || t[0] != '0', "no leading zeros");
}
#define check_digits check_digits_chain
#endif

int vp_harness_main(void) {
#if OP == 1
  uint64_t raw = vp_in_u64(); uint64_t v = BITS == 64 ? raw : (raw & (((uint64_t)1 << (BITS % 64)) - 1));
#ifdef VLO
  ASSUME(v >= (uint64_t)VLO && v <= (uint64_t)VHI);      /* value range of this query (non-power-of-two radices at 32/64 bits are decided per range) */
#endif
  uint8_t out[DIGITS + 1];
  uint64_t n = CC_(vp_uint_format_, UT)(out, DIGITS, v, RADIX, UPPER);
  check_digits(out, n, v, RADIX, UPPER);
#ifdef VLO
  if (v == (uint64_t)VHI) REACH("largest value of the range");
#else
  if (v == (BITS == 64 ? ~(uint64_t)0 : (((uint64_t)1 << (BITS % 64)) - 1))) REACH("largest value of the type");
#endif
#elif OP == 2 || OP == 3 || OP == 5
  uint64_t raw = vp_in_u64(); uint64_t mag; int neg = 0;
#if SIGNED
  int64_t sv = (int64_t)(raw << (64 - BITS)) >> (64 - BITS);
#ifdef VMIN
  ASSUME(sv >= VMIN && sv <= VMAX);
#endif
  neg = sv < 0; mag = neg ? (uint64_t)0 - (uint64_t)sv : (uint64_t)sv;
#define ARG sv
#else
  mag = BITS == 64 ? raw : (raw & (((uint64_t)1 << (BITS % 64)) - 1));
#ifdef VMAX
  ASSUME(mag <= VMAX);
#endif
#ifdef VMINU
  ASSUME(mag >= VMINU);
#endif
#define ARG mag
#endif
  str_t a;
#if SIGNED
  CC_(vp_from_int_, FT)(&a, ARG, RADIX, UPPER);
#else
  CC_(vp_from_uint_, FT)(&a, ARG, RADIX, UPPER);
#endif
  ASSERT(!vp_exc_pending, "from_int/from_uint does not throw");
  ASSERT(S_inv(&a.f0), "result is a valid string");
#if OP == 2
  ASSERT((a.f0.f1 >= 1) && ((a.f0.f0[0] == '-') == neg), "a leading '-' exactly for negative values");
  check_digits(a.f0.f0 + neg, a.f0.f1 - (uint64_t)neg, mag, RADIX, UPPER);
#if SIGNED && !defined(VMIN)
  if (neg && mag == ((uint64_t)1 << (BITS - 1))) REACH("most negative value");
#elif SIGNED
  if (sv == VMIN) REACH("smallest value of the range");
#endif
#elif OP == 3
  { /* the renderer ST::format uses for this argument type, default spec with the digit class of the radix */
    CC_(vp_ftype_, FT)(RADIX == 16 ? 2 : RADIX == 8 ? 4 : RADIX == 2 ? 5 : 0, ARG);
    uint8_t got[DIGITS + 2]; uint64_t gl = sink_flatten(got, DIGITS + 1);
    ASSERT(!vp_exc_pending, "format_type does not throw");
    ASSERT(sink_total == a.f0.f1, "ST::format's renderer and from_int produce the same number of characters");
    for (uint64_t i = 0; i < DIGITS + 1; i++) if (i < a.f0.f1 && i < gl) ASSERT(got[i] == a.f0.f0[i], "ST::format's renderer and from_int produce the same characters"); }
#ifdef WITH_SS
  { str_t c; CC_(vp_ss_, SSFT)(&c, ARG);
    ASSERT(!vp_exc_pending && S_inv(&c.f0), "string_stream returns a valid string");
    ASSERT(c.f0.f1 == a.f0.f1, "string_stream and from_int produce the same number of characters");
    for (uint64_t i = 0; i < DIGITS + 1; i++) if (i < a.f0.f1 && i < c.f0.f1) ASSERT(c.f0.f0[i] == a.f0.f0[i], "string_stream and from_int produce the same characters");
    vp_str_dtor(&c); }
#endif
#elif OP == 5
  { uint32_t flags = 99; int32_t fl = 99;
#ifndef RT_TO
#define RT_TO to_short
#define RT_T int16_t
#endif
    int64_t back = (int64_t)(RT_T)CC_(vp_, RT_TO)(&a, RADIX, &fl); flags = (uint32_t)fl;
    ASSERT(back == sv, "parsing the printed text in the same base returns the original value");
    ASSERT(flags == 3, "ok and full_match are both set"); }
#endif
  vp_str_dtor(&a);
  ASSERT(vp_live_blocks == 0, "no leak");
#elif OP == 4
  { /* arbitrary text (<= DIGITS bytes, any byte values incl. NUL) as ST::string state; the stub decides value and end position */
    extern int64_t vp_stub_sval; extern uint64_t vp_stub_uval, vp_stub_end; extern uint32_t vp_stub_base_seen; extern int vp_stub_calls, vp_stub_endptr_null; extern uint8_t *vp_stub_nptr_seen;
    str_t s; uint8_t t[DIGITS + 3]; S_mk(&s.f0, t);
    uint64_t n = s.f0.f1;
    uint32_t base = vp_in_u32();
    int64_t sval; uint64_t uval; uint64_t endpos;
#ifdef __CPROVER__
    vp_stub_sval = (int64_t)vp_in_u64(); vp_stub_uval = vp_in_u64(); vp_stub_end = vp_in_u64();
    sval = vp_stub_sval; uval = vp_stub_uval; endpos = vp_stub_end;
#else
    { /* native replay: the real C library is the oracle */
      extern long strtol(const char *, char **, int); extern long long strtoll(const char *, char **, int);
      extern unsigned long strtoul(const char *, char **, int); extern unsigned long long strtoull(const char *, char **, int);
      char *e = 0; (void)vp_in_u64(); (void)vp_in_u64(); (void)vp_in_u64();
      ASSUME(base == 0 || (base >= 2 && base <= 36));
      sval = TOLL ? strtoll((const char *)s.f0.f0, &e, (int)base) : strtol((const char *)s.f0.f0, &e, (int)base);
      uval = TOLL ? strtoull((const char *)s.f0.f0, &e, (int)base) : strtoul((const char *)s.f0.f0, &e, (int)base);
      if (TOSIGNED) { e = 0; sval = TOLL ? strtoll((const char *)s.f0.f0, &e, (int)base) : strtol((const char *)s.f0.f0, &e, (int)base); }
      endpos = (uint64_t)(e - (char *)s.f0.f0); }
#endif
    int32_t fl = 99;
    uint64_t got = (uint64_t)CC_(vp_, TO)(&s, base, &fl);
    uint64_t mask = TOBITS == 64 ? ~(uint64_t)0 : (((uint64_t)1 << (TOBITS % 64)) - 1);
    ASSERT(!vp_exc_pending, "to_* does not throw");
    if (n == 0) {
      ASSERT(fl == 2 && (got & mask) == 0, "empty string: full_match without ok, value 0");
    } else {
      ASSERT(((got ^ (TOSIGNED ? (uint64_t)sval : uval)) & mask) == 0, "value = what the C library returns, narrowed to the result type");
      ASSERT(((fl & 1) != 0) == (endpos != 0), "ok <=> at least one character was consumed");
      ASSERT(((fl & 2) != 0) == (endpos == n), "full_match <=> all characters were consumed");
#ifdef __CPROVER__
      ASSERT(vp_stub_calls == 1 && vp_stub_base_seen == base && vp_stub_nptr_seen == s.f0.f0, "the C library is called once, on the string's text, with the requested base");
#endif
      if (endpos > 0 && endpos < n) REACH("partial match");
    }
    { uint64_t got2 = (uint64_t)CC_(CC_(vp_, TO), _nr)(&s, base);
      if (n != 0) ASSERT(((got2 ^ (TOSIGNED ? (uint64_t)sval : uval)) & mask) == 0, "the overload without a result object returns the same value"); }
    for (uint64_t i = 0; i < DIGITS + 2; i++) if (i < n) ASSERT(s.f0.f0[i] == t[i], "subject unchanged");
    S_destroy(&s.f0); }
#elif OP == 6
  { str_t b; uint8_t got[DIGITS + 2];
    CC_(vp_ftype_, FT)(0, (int64_t)EXTREME);
    uint64_t gl = sink_flatten(got, DIGITS + 1);
    CC_(vp_ss_, FT)(&b, (int64_t)EXTREME);
    ASSERT(!vp_exc_pending && S_inv(&b.f0) && sink_total == b.f0.f1 && gl >= 1 && got[0] == '-' && b.f0.f0[0] == '-', "most negative value prints with a leading '-' through the format renderer and string_stream, without signed overflow");
    for (uint64_t i = 0; i < DIGITS + 1; i++) if (i < b.f0.f1 && i < gl) ASSERT(got[i] == b.f0.f0[i], "same characters");
    vp_str_dtor(&b); }
#endif
  REACH("end of harness");
  return 0;
}

/* C05 (and, with -DFAULT, C19): one operation of ST::buffer<T> from an ARBITRARY VALID pair of buffers.
 * Inv (vp_harness.h): size < L => data == &m_data and m_data[size] == 0; size >= L => data is the base of a
 * live heap block of exactly size+1 elements, terminated.  One step preserving Inv from every Inv-state covers
 * operation histories of any length.
 * -DSFX=c8|c16|c32|wc -DELEM=<uint type> -DL=<local_length> -DMAXS=<max size> -DOP=<n> [-DFAULT=<k>] */
#include "vp_harness.h"
#include "k.h"

#define CAT_(a, b) a##b
#define CAT(a, b) CAT_(a, b)
#define FN(name) CAT(vp_buf_##name##_, SFX)
typedef CAT(CAT(T_vp_buf_dtor_, SFX), _a0) buf_t;

VP_BUF_HELPERS(B, buf_t, ELEM, L, MAXS)

static ELEM in_elem(void) { return (ELEM)(sizeof(ELEM) == 1 ? vp_in_u8() : sizeof(ELEM) == 2 ? vp_in_u16() : vp_in_u32()); }

#define OP_COPY_CTOR 1
#define OP_MOVE_CTOR 2
#define OP_PTR_CTOR 3
#define OP_FILL_CTOR 4
#define OP_CLEAR 5
#define OP_COPY_ASSIGN 6
#define OP_MOVE_ASSIGN 7
#define OP_SELF_COPY_ASSIGN 8
#define OP_SELF_MOVE_ASSIGN 9
#define OP_ALLOCATE 10
#define OP_ALLOCATE_FILL 11
#define OP_DTOR 12
#define OP_DEFAULT_CTOR 13

int vp_harness_main(void) {
  buf_t a, b, out; ELEM sa[MAXS + 1], sb[MAXS + 1];
  int have_out = 0, a_alive = 1, b_alive = 1;
  B_mk(&a, sa); B_mk(&b, sb);
  uint64_t an = a.f1, bn = b.f1;
  ASSERT(B_inv(&a) && B_inv(&b), "constructed states satisfy Inv (harness self-check)");
#ifdef FAULT
  { uint32_t k = vp_in_u32(); ASSUME(k < FAULT); vp_fail_alloc_at = vp_alloc_count + (int)k; }
#endif

#if OP == OP_COPY_CTOR
  FN(copy_ctor)(&out, &a);
  if (!vp_exc_pending) {
    have_out = 1;
    ASSERT(B_inv(&out), "copy: new object satisfies Inv");
    ASSERT(B_eq(&out, sa, an), "copy: new object holds the source value");
    ASSERT(!(out.f1 >= L) || out.f0 != a.f0, "copy: no shared heap block");
  }
  ASSERT(B_inv(&a) && B_eq(&a, sa, an), "copy: source unchanged");
#elif OP == OP_MOVE_CTOR
  FN(move_ctor)(&out, &a);
  ASSERT(!vp_exc_pending, "move construction does not throw");
  have_out = 1;
  ASSERT(B_inv(&out), "move: new object satisfies Inv");
  ASSERT(B_eq(&out, sa, an), "move: new object holds the source value");
  ASSERT(B_inv(&a), "move: moved-from object satisfies Inv (valid, exclusively owning)");
  ASSERT(!(out.f1 >= L && a.f1 >= L) || out.f0 != a.f0, "move: no shared heap block");
#elif OP == OP_PTR_CTOR
  {
    uint64_t n = vp_in_u64(); ASSUME(n <= MAXS);
    ELEM *p = (ELEM *)vp_exact(n * sizeof(ELEM)); ELEM sp[MAXS + 1];
    for (uint64_t i = 0; i < MAXS; i++) if (i < n) { sp[i] = in_elem(); p[i] = sp[i]; }
    uint8_t usenull = vp_in_u8(); ASSUME(usenull <= 1);
    if (usenull) { ASSUME(n == 0); }
    FN(ptr_ctor)(&out, usenull ? (ELEM *)0 : p, n);
    if (!vp_exc_pending) {
      have_out = 1;
      ASSERT(B_inv(&out), "ctor(ptr,n): Inv");
      ASSERT(B_eq(&out, sp, n), "ctor(ptr,n): holds the given elements");
    }
    for (uint64_t i = 0; i < MAXS; i++) if (i < n) ASSERT(p[i] == sp[i], "ctor(ptr,n): input unchanged");
  }
#elif OP == OP_FILL_CTOR
  {
    uint64_t n = vp_in_u64(); ASSUME(n <= MAXS); ELEM c = in_elem();
    FN(fill_ctor)(&out, n, c);
    if (!vp_exc_pending) {
      have_out = 1;
      ASSERT(B_inv(&out), "ctor(n,fill): Inv");
      ASSERT(out.f1 == n, "ctor(n,fill): size");
      for (uint64_t i = 0; i < MAXS; i++) if (i < n) ASSERT(out.f0[i] == c, "ctor(n,fill): content");
    }
  }
#elif OP == OP_CLEAR
  FN(clear)(&a);
  ASSERT(!vp_exc_pending, "clear does not throw");
  ASSERT(B_inv(&a) && a.f1 == 0, "clear: empty and Inv");
#elif OP == OP_COPY_ASSIGN
  FN(copy_assign)(&a, &b);
  if (!vp_exc_pending) {
    ASSERT(B_inv(&a), "copy-assign: target Inv");
    ASSERT(B_eq(&a, sb, bn), "copy-assign: target holds the source value");
  } else {
    ASSERT(B_inv(&a), "failed copy-assign: target still satisfies Inv");
    ASSERT(B_eq(&a, sa, an) || a.f1 == 0, "failed copy-assign: target holds its previous value or is empty");
  }
  ASSERT(B_inv(&b) && B_eq(&b, sb, bn), "copy-assign: source unchanged");
  ASSERT(!(a.f1 >= L && b.f1 >= L) || a.f0 != b.f0, "copy-assign: no shared heap block");
#elif OP == OP_MOVE_ASSIGN
  FN(move_assign)(&a, &b);
  ASSERT(!vp_exc_pending, "move assignment does not throw");
  ASSERT(B_inv(&a), "move-assign: target Inv");
  ASSERT(B_eq(&a, sb, bn), "move-assign: target holds the source value");
  ASSERT(B_inv(&b), "move-assign: moved-from object satisfies Inv (valid, exclusively owning)");
  ASSERT(!(a.f1 >= L && b.f1 >= L) || a.f0 != b.f0, "move-assign: no shared heap block");
#elif OP == OP_SELF_COPY_ASSIGN
  FN(copy_assign)(&a, &a);
  ASSERT(!vp_exc_pending, "self copy-assign does not throw");
  ASSERT(B_inv(&a) && B_eq(&a, sa, an), "self copy-assign: value unchanged");
#elif OP == OP_SELF_MOVE_ASSIGN
  FN(move_assign)(&a, &a);
  ASSERT(!vp_exc_pending, "self move-assign does not throw");
  ASSERT(B_inv(&a), "self move-assign: still a valid object");
#elif OP == OP_ALLOCATE
  {
    uint64_t n = vp_in_u64(); ASSUME(n <= MAXS);
    FN(allocate)(&a, n);
    if (!vp_exc_pending) {
      ASSERT(B_inv(&a) && a.f1 == n, "allocate: Inv and new size");
    } else {
      ASSERT(B_inv(&a), "failed allocate: buffer still satisfies Inv");
      ASSERT(B_eq(&a, sa, an) || a.f1 == 0, "failed allocate: previous value or empty");
    }
  }
#elif OP == OP_ALLOCATE_FILL
  {
    uint64_t n = vp_in_u64(); ASSUME(n <= MAXS); ELEM c = in_elem();
    FN(allocate_fill)(&a, n, c);
    if (!vp_exc_pending) {
      ASSERT(B_inv(&a) && a.f1 == n, "allocate(fill): Inv and new size");
      for (uint64_t i = 0; i < MAXS; i++) if (i < n) ASSERT(a.f0[i] == c, "allocate(fill): content");
    } else {
      ASSERT(B_inv(&a), "failed allocate(fill): buffer still satisfies Inv");
    }
  }
#elif OP == OP_DTOR
  FN(dtor)(&a); a_alive = 0;
  ASSERT(!vp_exc_pending, "destructor does not throw");
#elif OP == OP_DEFAULT_CTOR
  FN(default)(&out); have_out = 1;
  ASSERT(B_inv(&out) && out.f1 == 0, "default ctor: empty and Inv");
#else
#error "unknown OP"
#endif

#ifdef FAULT
  if (vp_exc_pending) {
    ASSERT(vp_exc_kind == VP_EXC_BAD_ALLOC, "allocation failure surfaces as std::bad_alloc");
    REACH("allocation-failure path");
    vp_clear_exception();
  }
  vp_fail_alloc_at = -1;
#else
  ASSERT(!vp_exc_pending, "no exception without an allocation fault");
#endif
  /* every object (incl. moved-from ones) is destructible by the REAL destructor; nothing leaks or is freed twice */
  if (have_out) FN(dtor)(&out);
  if (a_alive) FN(dtor)(&a);
  if (b_alive) FN(dtor)(&b);
  ASSERT(vp_live_blocks == 0, "no leak: every heap block released exactly once");
  REACH("end of harness");
  return 0;
}

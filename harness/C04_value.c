/* C04_value.c -- ST::string has value semantics: reads never mutate, results never alias, mutators change only their target.
 * One operation from an ARBITRARY pool of valid strings (a, b; every size class around the small-string limit 4); afterwards
 *   - every pool member that is not the target keeps data pointer, size and bytes (frame condition);
 *   - every returned string satisfies the invariant and owns storage that is a different object from every pool member's;
 *   - destroying the result first, or the sources first, leaves the other intact (both orders are separate queries: -DDESTROY_RESULT_FIRST);
 *   - nothing leaks.
 *  -DOP=1 copy ctor, then the SOURCE is reassigned and destroyed   2 copy assignment a = b   3 self assignment a = a   4 move assignment a = move(b)
 *      5 a += a (self-referential)   6 a.replace(a, a)   7 a + b   8 substr of the whole string   9 replace without a match   10 trim with nothing to trim
 *      11 to_upper   12 left(n >= size)   13 right(n >= size)   14 clear   15 a += b   16 from_validated then mutate the source bytes
 *      17 a + const char*   18 const char* + a   19 a + char   20 a += char   21 char32_t + a
 *  -DFAULT=<k> (C19): the j-th allocation (j < k, symbolic) of the operation throws std::bad_alloc; afterwards std::bad_alloc is what escaped, every non-target string is
 *      untouched, the target holds its previous value or is empty, everything can be destroyed and nothing leaks */
#include "vp_harness.h"
#include "k.h"
typedef vp_string_t str_t;
#ifndef MAXS
#define MAXS 5
#endif
#define RMAX (2 * MAXS + 1)
VP_BUF_HELPERS(S, __typeof__(((str_t *)0)->f0), uint8_t, VP_SSO, RMAX)
static int heapish(const str_t *s) { return s->f0.f1 >= VP_SSO; }
static int distinct_storage(const str_t *r, const str_t *s) { return !(heapish(r) && heapish(s)) || r->f0.f0 != s->f0.f0; }
static int same(const str_t *s, const uint8_t *sh, uint64_t n, const uint8_t *data) {
  if (!S_inv(&s->f0) || s->f0.f1 != n || s->f0.f0 != data) return 0;
  for (uint64_t i = 0; i < MAXS; i++) if (i < n && s->f0.f0[i] != sh[i]) return 0;
  return 1;
}

#ifdef FAULT
/* C19: called right after the library call; tgt = 1 when a is the operation's target (it may hold its previous value or be empty), 0 when a is only read */
static int fault_path(str_t *a, str_t *b, const uint8_t *sa, const uint8_t *sb, uint64_t an, uint64_t bn, const uint8_t *ad, const uint8_t *bd, int tgt) {
  vp_fail_alloc_at = -1;
  if (!vp_exc_pending) return 0;
  ASSERT(vp_exc_kind == VP_EXC_BAD_ALLOC, "allocation failure surfaces as std::bad_alloc");
  vp_clear_exception();
  ASSERT(same(b, sb, bn, bd), "a string that is not the target is untouched by the failed operation");
  if (!tgt) ASSERT(same(a, sa, an, ad), "the source is untouched by the failed operation");
  else {
    ASSERT(S_inv(&a->f0), "the target of the failed operation is a valid string (its data() is not a released pointer)");
    ASSERT(a->f0.f1 == 0 || a->f0.f1 == an, "the target holds its previous value or an empty value");
    for (uint64_t i = 0; i < MAXS; i++) if (i < a->f0.f1) ASSERT(a->f0.f0[i] == sa[i], "the target's previous value is intact");
  }
  vp_str_dtor(a); vp_str_dtor(b);
  ASSERT(vp_live_blocks == 0, "no leak, nothing freed twice after the failed operation");
  REACH("allocation-failure path");
  REACH("end of harness");
  return 1;
}
#define FAULT_CHECK(tgt) do { if (fault_path(&a, &b, sa, sb, an, bn, ad, bd, (tgt))) return 0; } while (0)
#else
#define FAULT_CHECK(tgt) ((void)0)
#endif

int vp_harness_main(void) {
  str_t a, b, r; uint8_t sa[RMAX + 1], sb[RMAX + 1]; int have_r = 0, a_alive = 1, b_alive = 1;
  S_mk(&a.f0, sa); S_mk(&b.f0, sb);
  uint64_t an = a.f0.f1, bn = b.f0.f1; ASSUME(an <= MAXS && bn <= MAXS);
  /* bytes: ASCII, so that re-validating operations (replace, +=) do not reject the content (validation is C02's subject) */
  for (int i = 0; i < MAXS; i++) ASSUME(sa[i] < 0x80 && sb[i] < 0x80);
  const uint8_t *ad = a.f0.f0, *bd = b.f0.f0;
  uint8_t exp[RMAX + 1]; uint64_t el = 0; int check_r = 0;
#ifdef FAULT
  { uint32_t fk = vp_in_u32(); ASSUME(fk < FAULT); vp_fail_alloc_at = vp_alloc_count + (int)fk; }
#endif
#if OP == 1
  vp_str_copy_ctor(&r, &a); FAULT_CHECK(0); have_r = 1;
  ASSERT(same(&a, sa, an, ad) && same(&b, sb, bn, bd), "copy construction leaves every existing string untouched");
  ASSERT(S_inv(&r.f0) && distinct_storage(&r, &a), "the copy owns its own storage");
  /* now reassign and destroy the source: the copy must be unaffected (deep copy) */
  vp_str_copy_assign(&a, &b); vp_str_dtor(&a); a_alive = 0;
  for (uint64_t i = 0; i < MAXS; i++) if (i < an) exp[i] = sa[i]; el = an; check_r = 1;
#elif OP == 2
  vp_str_copy_assign(&a, &b); FAULT_CHECK(1);
  ASSERT(same(&b, sb, bn, bd), "a = b leaves b untouched");
  ASSERT(S_inv(&a.f0) && a.f0.f1 == bn && distinct_storage(&a, &b), "a = b: a holds a deep copy");
  for (uint64_t i = 0; i < MAXS; i++) if (i < bn) ASSERT(a.f0.f0[i] == sb[i], "a = b: value");
  vp_str_dtor(&b); b_alive = 0;   /* destroying the source does not affect the copy (checked by memory safety of the final reads) */
  for (uint64_t i = 0; i < MAXS; i++) if (i < bn) ASSERT(a.f0.f0[i] == sb[i], "a = b: the copy survives the destruction of b");
#elif OP == 3
  vp_str_copy_assign(&a, &a);
  ASSERT(S_inv(&a.f0) && a.f0.f1 == an, "s = s keeps the value"); for (uint64_t i = 0; i < MAXS; i++) if (i < an) ASSERT(a.f0.f0[i] == sa[i], "s = s keeps the bytes");
  ASSERT(same(&b, sb, bn, bd), "s = s leaves other strings untouched");
#elif OP == 4
  vp_str_move_assign(&a, &b);
  ASSERT(S_inv(&a.f0) && a.f0.f1 == bn, "a = move(b): a holds b's value"); for (uint64_t i = 0; i < MAXS; i++) if (i < bn) ASSERT(a.f0.f0[i] == sb[i], "a = move(b): bytes");
  ASSERT(S_inv(&b.f0) && distinct_storage(&a, &b) && (b.f0.f1 >= VP_SSO || b.f0.f0 == b.f0.f2.a), "the moved-from string is valid and does not point into another object");
  /* modify the target afterwards: the moved-from string must not change */
  { uint64_t bn2 = b.f0.f1; uint8_t keep[RMAX + 1]; for (uint64_t i = 0; i < MAXS; i++) if (i < bn2) keep[i] = b.f0.f0[i];
    vp_str_clear(&a);
    ASSERT(S_inv(&b.f0) && b.f0.f1 == bn2, "modifying the target does not change the moved-from string"); for (uint64_t i = 0; i < MAXS; i++) if (i < bn2) ASSERT(b.f0.f0[i] == keep[i], "moved-from bytes stable"); }
#elif OP == 5
  vp_append(&a, &a); FAULT_CHECK(1);
  ASSERT(!vp_exc_pending && S_inv(&a.f0) && a.f0.f1 == 2 * an, "s += s doubles the value");
  for (uint64_t i = 0; i < MAXS; i++) if (i < an) ASSERT(a.f0.f0[i] == sa[i] && a.f0.f0[an + i] == sa[i], "s += s: content");
  ASSERT(same(&b, sb, bn, bd), "s += s leaves other strings untouched");
#elif OP == 6
  vp_replace_str(&r, &a, &a, &a, 0); FAULT_CHECK(0); have_r = 1;
  ASSERT(!vp_exc_pending && same(&a, sa, an, ad) && same(&b, sb, bn, bd), "s.replace(s, s) leaves s and every other string untouched");
  for (uint64_t i = 0; i < MAXS; i++) if (i < an) exp[i] = sa[i]; el = an; check_r = 1;
#elif OP == 7
  vp_concat(&r, &a, &b); FAULT_CHECK(0); have_r = 1;
  ASSERT(!vp_exc_pending && same(&a, sa, an, ad) && same(&b, sb, bn, bd), "a + b leaves both operands untouched");
  for (uint64_t i = 0; i < MAXS; i++) { if (i < an) exp[i] = sa[i]; if (i < bn) exp[an + i] = sb[i]; } el = an + bn; check_r = 1;
#elif OP == 8 || OP == 9 || OP == 10 || OP == 11 || OP == 12 || OP == 13
#if OP == 8
  vp_substr(&r, &a, 0, ~(uint64_t)0); FAULT_CHECK(0);
#elif OP == 9
  { for (int i = 0; i < MAXS; i++) ASSUME(sa[i] != 'q'); str_t f, t; uint8_t e1[RMAX + 1], e2[RMAX + 1]; S_mk_n(&f.f0, e1, 0, 1); S_mk_n(&t.f0, e2, 0, 2); ASSUME(e1[0] == 'q' && e2[0] < 0x80 && e2[1] < 0x80);
    vp_replace_str(&r, &a, &f, &t, 0); S_destroy(&f.f0); S_destroy(&t.f0); FAULT_CHECK(0); }
#elif OP == 10
  { for (int i = 0; i < MAXS; i++) ASSUME(sa[i] != ' ' && sa[i] != '\t' && sa[i] != '\r' && sa[i] != '\n'); vp_trim_dflt(&r, &a); FAULT_CHECK(0); }
#elif OP == 11
  { for (int i = 0; i < MAXS; i++) ASSUME(!(sa[i] >= 'a' && sa[i] <= 'z')); vp_str_to_upper(&r, &a); FAULT_CHECK(0); }
#elif OP == 12
  { uint64_t k = vp_in_u64(); ASSUME(k >= an); vp_left(&r, &a, k); FAULT_CHECK(0); }
#else
  { uint64_t k = vp_in_u64(); ASSUME(k >= an); vp_right(&r, &a, k); FAULT_CHECK(0); }
#endif
  have_r = 1;
  ASSERT(!vp_exc_pending && same(&a, sa, an, ad) && same(&b, sb, bn, bd), "the operation leaves its source and every other string untouched");
  for (uint64_t i = 0; i < MAXS; i++) if (i < an) exp[i] = sa[i]; el = an; check_r = 1;   /* result equals the source */
#elif OP == 14
  vp_str_clear(&a);
  ASSERT(S_inv(&a.f0) && a.f0.f1 == 0 && same(&b, sb, bn, bd), "clear changes only its target");
#elif OP == 15
  vp_append(&a, &b); FAULT_CHECK(1);
  ASSERT(!vp_exc_pending && S_inv(&a.f0) && a.f0.f1 == an + bn && same(&b, sb, bn, bd), "a += b changes only a");
  for (uint64_t i = 0; i < MAXS; i++) { if (i < an) ASSERT(a.f0.f0[i] == sa[i], "a += b: prefix"); if (i < bn) ASSERT(a.f0.f0[an + i] == sb[i], "a += b: suffix"); }
#elif OP == 16
  { uint8_t *p = (uint8_t *)vp_exact(an); for (uint64_t i = 0; i < MAXS; i++) if (i < an) p[i] = sa[i];
    vp_str_from_validated(&r, p, an); have_r = 1;
    for (uint64_t i = 0; i < MAXS; i++) if (i < an) p[i] = (uint8_t)(p[i] ^ 0x55);      /* the caller's bytes change afterwards */
    for (uint64_t i = 0; i < MAXS; i++) if (i < an) exp[i] = sa[i]; el = an; check_r = 1; }
#elif OP == 17 || OP == 18 || OP == 19 || OP == 21
  { /* the other concatenation overloads: string + const char*, const char* + string, string + char, char32_t + string */
    uint8_t c0 = vp_in_u8(), c1 = vp_in_u8(); ASSUME(c0 != 0 && c0 < 0x80 && c1 != 0 && c1 < 0x80);
    uint64_t zl = vp_in_u64(); ASSUME(zl <= 2);
    uint8_t *z = (uint8_t *)vp_exact(zl + 1); if (zl > 0) z[0] = c0; if (zl > 1) z[1] = c1; z[zl] = 0;
    uint32_t cp = vp_in_u32(); ASSUME(cp != 0 && cp <= 0x7FF);
#if OP == 17
    vp_concat_cstr(&r, &a, z); FAULT_CHECK(0);
    for (uint64_t i = 0; i < MAXS; i++) if (i < an) exp[i] = sa[i]; if (zl > 0) exp[an] = c0; if (zl > 1) exp[an + 1] = c1; el = an + zl;
#elif OP == 18
    vp_cstr_concat(&r, z, &a); FAULT_CHECK(0);
    if (zl > 0) exp[0] = c0; if (zl > 1) exp[1] = c1; for (uint64_t i = 0; i < MAXS; i++) if (i < an) exp[zl + i] = sa[i]; el = an + zl;
#elif OP == 19
    vp_concat_ch(&r, &a, (int8_t)c0); FAULT_CHECK(0);
    for (uint64_t i = 0; i < MAXS; i++) if (i < an) exp[i] = sa[i]; exp[an] = c0; el = an + 1;
#else
    vp_c32_concat(&r, cp, &a); FAULT_CHECK(0);
    { uint64_t k = 0; if (cp < 0x80) exp[k++] = (uint8_t)cp; else { exp[k++] = (uint8_t)(0xC0 + cp / 64u); exp[k++] = (uint8_t)(0x80 + cp % 64u); }
      for (uint64_t i = 0; i < MAXS; i++) if (i < an) exp[k + i] = sa[i]; el = an + k; }
#endif
    have_r = 1; check_r = 1;
    ASSERT(!vp_exc_pending && same(&a, sa, an, ad) && same(&b, sb, bn, bd), "concatenation leaves its string operand and every other string untouched");
    for (uint64_t i = 0; i < 2; i++) if (i < zl) ASSERT(z[i] == (i ? c1 : c0), "the C string operand is not modified"); }
#elif OP == 20
  { uint8_t c0 = vp_in_u8(); ASSUME(c0 != 0 && c0 < 0x80);
    vp_append_ch(&a, (int8_t)c0); FAULT_CHECK(1);
    ASSERT(!vp_exc_pending && S_inv(&a.f0) && a.f0.f1 == an + 1 && same(&b, sb, bn, bd), "a += char changes only a");
    for (uint64_t i = 0; i < MAXS; i++) if (i < an) ASSERT(a.f0.f0[i] == sa[i], "a += char: prefix"); ASSERT(a.f0.f0[an] == c0, "a += char: the appended byte"); }
#else
#error "unknown OP"
#endif
  ASSERT(!vp_exc_pending, "no exception");
  if (check_r) {
    ASSERT(S_inv(&r.f0) && r.f0.f1 == el, "the result is a valid string of the expected size");
    for (uint64_t i = 0; i < RMAX; i++) if (i < el && i < r.f0.f1) ASSERT(r.f0.f0[i] == exp[i], "the result holds the expected bytes");
    ASSERT((!a_alive || distinct_storage(&r, &a)) && (!b_alive || distinct_storage(&r, &b)), "the result owns storage distinct from every existing string (also when it equals its source)");
#if (OP == 1 || (OP >= 6 && OP <= 13) || OP == 16 || OP == 17 || OP == 18 || OP == 19 || OP == 21) && MAXS >= VP_SSO
    if (r.f0.f1 >= VP_SSO) REACH("heap-backed result");
#endif
  }
#ifdef DESTROY_RESULT_FIRST
  if (have_r) { vp_str_dtor(&r); have_r = 0; }
  if (a_alive) { ASSERT(S_inv(&a.f0), "sources are intact after the result is destroyed"); }
#endif
  if (a_alive) vp_str_dtor(&a);
  if (b_alive) vp_str_dtor(&b);
  if (have_r) { ASSERT(S_inv(&r.f0) && r.f0.f1 == el, "the result is intact after its sources are destroyed"); for (uint64_t i = 0; i < RMAX; i++) if (i < el) ASSERT(r.f0.f0[i] == exp[i], "result bytes survive the destruction of the sources"); vp_str_dtor(&r); }
  ASSERT(vp_live_blocks == 0, "no leak, nothing freed twice");
  REACH("end of harness");
  return 0;
}

/* C09_split.c -- split / tokenize / replace partition the text exactly.
 * std::vector<ST::string> is ENVIRONMENT: modelled below as a bounded sequence (capacity VCAP; exceeding it is a reported bound violation) whose
 * elements are constructed and destroyed by the REAL translated ST::string constructors/destructor; libstdc++'s growth code is not verified.
 * Oracle: left-to-right non-overlapping scan written from the property text.
 *  -DOP=1 split(ST::string, max, cs)  2 split(const char*, max, cs)  3 split(char, max, cs)  4 tokenize(delims)  5 replace(ST::string, ST::string, cs)
 *  -DNS=<subject length> -DNM=<separator/pattern length> [-DNT=<replacement length>]   (concrete lengths, arbitrary bytes) */
#include "vp_harness.h"
#include "k.h"
typedef vp_string_t str_t;
#ifndef NT
#define NT 0
#endif
#define SMAX (NS + 1 + NS * NT)
VP_BUF_HELPERS(S, __typeof__(((str_t *)0)->f0), uint8_t, VP_SSO, SMAX)
static uint8_t fold(uint8_t c) { return (c >= 'A' && c <= 'Z') ? (uint8_t)(c + 32) : c; }
static int ceq(uint8_t a, uint8_t b, uint32_t ci) { return ci ? fold(a) == fold(b) : a == b; }

#if OP != 5
typedef T_vp_vec_dtor_a0 vec_t;
#define VCAP (NS + 2 <= 7 ? NS + 2 : 7)
#ifdef __CPROVER__
#define VCOUNT(v) ((uint64_t)vcount)
#define VPIECE(v, p) ((const str_t *)vslot(p))
#else
uint64_t vp_vec_size(const void *v); const void *vp_vec_at(const void *v, uint64_t i);   /* not roots under CBMC: no prototype in k.h */
#define VCOUNT(v) ((uint64_t)vp_vec_size(v))
#define VPIECE(v, p) ((const str_t *)vp_vec_at((v), (p)))
int vec_fail_at = -1;
#endif
#ifdef __CPROVER__
/* one separate object per element: a pointer into an array of structs at a symbolic index lost the element's self-referential data pointer in CBMC
 * (counterexamples that did not reproduce natively) */
static str_t ve0, ve1, ve2, ve3, ve4, ve5, ve6; static int vcount; int vec_fail_at = -1; static int vec_ops;
static str_t *vslot(int k) { return k == 0 ? &ve0 : k == 1 ? &ve1 : k == 2 ? &ve2 : k == 3 ? &ve3 : k == 4 ? &ve4 : k == 5 ? &ve5 : &ve6; }
static int vec_room(void) {
  if (vec_ops++ == vec_fail_at) { vp_throw(0, VP_EXC_BAD_ALLOC); return 0; }      /* injectable growth failure (C19) */
  ASSERT(vcount < VCAP, "vector model capacity (bound) exceeded: more pieces than the subject can have");
  ASSUME(vcount < VCAP);
  return 1;
}
void vpx__ZNSt6vectorIN2ST6stringESaIS1_EEC2Ev(vec_t *v) { (void)v; vcount = 0; }
void vpx__ZNSt6vectorIN2ST6stringESaIS1_EED2Ev(vec_t *v) { (void)v; for (int i = 0; i < VCAP; i++) if (i < vcount) vp_str_dtor(vslot(i)); vcount = 0; }
void vpx__ZNSt6vectorIN2ST6stringESaIS1_EE9push_backEOS1_(vec_t *v, str_t *x) { (void)v; if (!vec_room()) return; vp_str_move_ctor(vslot(vcount), x); vcount++; }
str_t *vpx__ZNSt6vectorIN2ST6stringESaIS1_EE12emplace_backIJS1_EEERS1_DpOT_(vec_t *v, str_t *x) { (void)v; if (!vec_room()) return 0; vp_str_move_ctor(vslot(vcount), x); vcount++; return vslot(vcount - 1); }
str_t *vpx__ZNSt6vectorIN2ST6stringESaIS1_EE12emplace_backIJRPKclRNS0_16utf_validation_tEEEERS1_DpOT_(vec_t *v, uint8_t **p, uint64_t *n, uint32_t *val) {
  (void)v; if (!vec_room()) return 0;
  vp_str_ctor_ptr(vslot(vcount), *p, *n, *val); if (vp_exc_pending) return 0;
  vcount++; return vslot(vcount - 1);
}
#endif
#endif

int vp_harness_main(void) {
  str_t s; uint8_t sh[SMAX + 1]; S_mk_n(&s.f0, sh, -1, NS);
  uint32_t ci = vp_in_u32(); ASSUME(ci <= 1);
#ifdef CI
  ASSUME(ci == CI);      /* case mode fixed by the query (the longer subject/separator combinations are decided per mode) */
#endif
  uint8_t sp[NM > 3 ? NM + 1 : 4]; for (int i = 0; i < 3; i++) sp[i] = vp_in_u8();
#if OP == 5
  { str_t from, to, out; uint8_t tf[SMAX + 1], tt[SMAX + 1];
    S_mk_n(&from.f0, tf, 0, NM); S_mk_n(&to.f0, tt, 0, NT);
    vp_replace_str(&out, &s, &from, &to, ci);
    /* replace() re-validates its result with the default validation: text that is not valid UTF-8 may be rejected with ST::unicode_error (by design);
     * for ASCII text (NUL included) it must not throw */
    int ascii = 1; for (int j = 0; j < NS; j++) if (sh[j] >= 0x80) ascii = 0; for (int j = 0; j < NM; j++) if (tf[j] >= 0x80) ascii = 0; for (int j = 0; j < NT; j++) if (tt[j] >= 0x80) ascii = 0;
    if (vp_exc_pending) { ASSERT(vp_exc_kind == VP_EXC_UNICODE && !ascii, "replace throws nothing but ST::unicode_error, and only for text that is not ASCII"); vp_clear_exception(); S_destroy(&from.f0); S_destroy(&to.f0); S_destroy(&s.f0); ASSERT(vp_live_blocks == 0, "no leak on the throwing path"); return 0; }
    /* reference: substitute every non-overlapping left-to-right occurrence */
    uint8_t ref[SMAX + 1]; uint64_t rl = 0, i = 0, k = 0;
    for (int g = 0; g < NS + 1; g++) { if (i >= NS) break;
      int m = NM > 0 && i + NM <= NS; for (int j = 0; j < NM; j++) if (m && !ceq(sh[i + j], tf[j], ci)) m = 0;
      if (m) { for (int j = 0; j < NT; j++) ref[rl++] = tt[j]; i += NM; k++; } else { ref[rl++] = sh[i]; i++; } }
    ASSERT(S_inv(&out.f0), "result is a valid string (exactly sized: the counting scan and the copying scan agree)");
    ASSERT(out.f0.f1 == rl && rl == NS + k * NT - k * NM, "result length = size + k*(|to|-|from|)");
    for (uint64_t j = 0; j < SMAX; j++) if (j < rl && j < out.f0.f1) ASSERT(out.f0.f0[j] == ref[j], "result byte equals the reference substitution");
    for (uint64_t j = 0; j < NS; j++) ASSERT(s.f0.f0[j] == sh[j], "subject unchanged");
#if NM >= 1 && 2 * NM <= NS
    if (k >= 2) REACH("two occurrences replaced");
#endif
    vp_str_dtor(&out); S_destroy(&from.f0); S_destroy(&to.f0); }
#else
  uint64_t max = vp_in_u64();
  vec_t v; uint64_t m = NM;
#ifdef FAULT
  { uint32_t fk = vp_in_u32(); ASSUME(fk < FAULT); vec_fail_at = (int)fk; }   /* C19: the fk-th growth of the result vector throws std::bad_alloc */
#endif
#if OP == 1
  { str_t sep; uint8_t ts[SMAX + 1]; S_mk_n(&sep.f0, ts, 0, NM); for (int i = 0; i < NM; i++) sp[i] = ts[i];
    vp_split_str(&v, &s, &sep, max, ci); S_destroy(&sep.f0); }
#elif OP == 2
  { uint8_t *z = (uint8_t *)vp_exact(NM + 1); for (int i = 0; i < NM; i++) { ASSUME(sp[i] != 0 && sp[i] < 0x80); z[i] = sp[i]; } z[NM] = 0;
    vp_split_cstr(&v, &s, z, max, ci); }
#elif OP == 3
  ASSUME(sp[0] != 0 && sp[0] < 0x80);    /* documented contract assertion of split(char) */
  vp_split_ch(&v, &s, sp[0], max, ci); m = 1;
#elif OP == 4
  { uint8_t *z = (uint8_t *)vp_exact(NM + 1); for (int i = 0; i < NM; i++) { ASSUME(sp[i] != 0); z[i] = sp[i]; } z[NM] = 0;
    vp_tokenize(&v, &s, z); }
#endif
#ifdef FAULT
  if (vp_exc_pending) {
    ASSERT(vp_exc_kind == VP_EXC_BAD_ALLOC, "allocation failure surfaces as std::bad_alloc");
    REACH("allocation-failure path");
    vp_clear_exception();
    for (uint64_t j = 0; j < NS; j++) ASSERT(s.f0.f0[j] == sh[j], "subject unchanged");
    /* the partially built vector was destroyed by the library's unwinding (its destructor ran); the pieces built so far and the piece in flight are released */
    S_destroy(&s.f0);
    ASSERT(vp_live_blocks == 0, "no leak after the failed split");
    REACH("end of harness");
    return 0;
  }
#endif
  ASSERT(!vp_exc_pending, "split/tokenize does not throw");
  /* reference boundaries */
  uint64_t st[NS + 2], en[NS + 2]; uint64_t np = 0;
#if OP == 4
  { uint64_t i = 0; for (int g = 0; g < NS + 1; g++) { 
      for (int h = 0; h < NS; h++) if (i < NS && ((NM > 0 && sh[i] == sp[0]) || (NM > 1 && sh[i] == sp[1]))) i++;
      if (i >= NS) break;
      uint64_t b = i; for (int h = 0; h < NS; h++) if (i < NS && !((NM > 0 && sh[i] == sp[0]) || (NM > 1 && sh[i] == sp[1]))) i++;
      st[np] = b; en[np] = i; np++; } }
#else
  { uint64_t i = 0, b = 0, cuts = 0;
    for (int g = 0; g < NS + 1; g++) { if (i >= NS || m == 0 || cuts >= max) break;
      int hit = i + m <= NS; for (uint64_t j = 0; j < (NM > 2 ? NM : 2); j++) if (j < m && hit && !ceq(sh[i + j], sp[j], ci)) hit = 0;
      if (hit) { st[np] = b; en[np] = i; np++; i += m; b = i; cuts++; } else i++; }
    st[np] = b; en[np] = NS; np++; }
  ASSERT(max == ~(uint64_t)0 || np <= max + 1, "at most max+1 pieces (reference self-check)");
#endif
  ASSERT(VCOUNT(&v) == np, "number of pieces equals the reference partition");
  for (int p = 0; p < VCAP; p++) if ((uint64_t)p < VCOUNT(&v) && (uint64_t)p < np) {
    const str_t *pc = VPIECE(&v, p);
    ASSERT(S_inv(&pc->f0), "piece is a valid string");
    ASSERT(pc->f0.f1 == en[p] - st[p], "piece length");
    for (uint64_t i = 0; i < NS; i++) if (i < en[p] - st[p] && i < pc->f0.f1) ASSERT(pc->f0.f0[i] == sh[st[p] + i], "piece bytes are the bytes between the cuts, in order");
  }
  for (uint64_t j = 0; j < NS; j++) ASSERT(s.f0.f0[j] == sh[j], "subject unchanged");
#if NM >= 1
  if (np >= 2) REACH("at least two pieces");
#endif
  vp_vec_dtor(&v);
#endif
  S_destroy(&s.f0);
  ASSERT(vp_live_blocks == 0, "no leak");
  REACH("end of harness");
  return 0;
}

#include "vp_harness.h"
#include "k.h"
#include "ref_utf.h"
#define N 2
#define OMAX (3 * N + 1)
REF_DECODE_U8(N + 1)
int vp_harness_main(void) {
  uint8_t sh[N + 1]; uint64_t n = N;
  uint8_t *in = (uint8_t *)vp_exact(2); for (int i = 0; i < N; i++) { sh[i] = vp_in_u8(); in[i] = sh[i]; }
  ref_item it[N + 1]; uint64_t k = ref_decode_u8(sh, n, it);
  uint8_t rep[OMAX + 1]; uint64_t rl = 0;
#if V >= 3
  { uint64_t pos = 0; for (uint64_t i = 0; i < N + 1; i++) if (i < k) {
      if (it[i].bad) { rep[rl++] = 0xEF; rep[rl++] = 0xBF; rep[rl++] = 0xBD; pos += 1; }
      else { int len = ref_u8_len(sh[pos]); for (int j = 0; j < 4; j++) if (j < len) rep[rl++] = sh[pos + j]; pos += (uint64_t)len; } } }
  ASSERT(rl <= 6, "rl");
#endif
#if V >= 4
  ASSERT(vp_cleanup_utf8((uint8_t *)0, in, n) == rl, "measure");
#endif
#if V >= 5
  { uint8_t *o = (uint8_t *)vp_exact(rl); uint64_t w = vp_cleanup_utf8(o, in, n);
    ASSERT(w == rl, "w");
    for (uint64_t i = 0; i < OMAX; i++) if (i < rl) ASSERT(o[i] == rep[i], "content");
#if V == 6
    ASSERT(vp_validate_utf8(o, rl) == 0, "revalidates");
#endif
  }
#endif
#if V == 7
  { vp_string_t out; vp_from_utf8(&out, in, n, 1); ASSERT(out.f0.f1 == rl, "size"); vp_str_dtor(&out); }
#endif
#if V == 8
  { vp_string_t out; vp_from_utf8(&out, in, n, 1); ASSERT(out.f0.f1 <= 6, "size"); vp_str_dtor(&out); }
#endif
  REACH("end");
  return 0;
}

#include "vp_harness.h"
#include "k.h"
typedef vp_string_t str_t;
VP_BUF_HELPERS(S, __typeof__(((str_t *)0)->f0), uint8_t, VP_SSO, 5)
int vp_harness_main(void) {
  str_t s, f, t, out; uint8_t a[9], b[9], c[9];
  S_mk_n(&s.f0, a, -1, NS); S_mk_n(&f.f0, b, -1, NF); S_mk_n(&t.f0, c, -1, NT);
  vp_replace_str(&out, &s, &f, &t, 0);
  ASSERT(out.f0.f1 <= 16, "size");
  vp_str_dtor(&out);
  REACH("end");
  return 0;
}

/* C08_slice.c -- slicing returns the clamped byte range for every position, count and separator.
 *  -DOP=1 substr(start,count) / substr(start): start = ANY int64, count = ANY uint64 (loop-free clamp arithmetic, full domain)
 *  -DOP=2 left(n) / right(n): n = ANY uint64
 *  -DOP=3 trim_left / trim_right / trim (-DFORM=1..4; 4 = default whitespace set)
 *  -DOP=4 before_first / after_first / before_last / after_last: -DWHICH=1..4, -DFORM=1 char, 2 const char*, 3 ST::string
 *  -DMAXS=<max string size> [-DM=<max separator/charset size>] [-DSRC_HEAP=0|1] */
#include "vp_harness.h"
#include "k.h"
typedef vp_string_t str_t;
#ifndef M
#define M 2
#endif
#define NMAX (MAXS > M ? MAXS : M)
VP_BUF_HELPERS(S, __typeof__(((str_t *)0)->f0), uint8_t, VP_SSO, NMAX)
#ifndef SRC_HEAP
#define SRC_HEAP -1
#endif

static uint8_t fold(uint8_t c) { return (c >= 'A' && c <= 'Z') ? (uint8_t)(c + 32) : c; }
static int ceq(uint8_t a, uint8_t b, uint32_t ci) { return ci ? fold(a) == fold(b) : a == b; }
static int match_at(const uint8_t *h, uint64_t hn, const uint8_t *nd, uint64_t m, uint64_t i, uint32_t ci) {
  if (i + m > hn) return 0;
  for (uint64_t j = 0; j < M; j++) if (j < m && !ceq(h[i + j], nd[j], ci)) return 0;
  return 1;
}
static int64_t ref_first(const uint8_t *h, uint64_t hn, const uint8_t *nd, uint64_t m, uint32_t ci) {
  if (m == 0) return -1;
  for (uint64_t i = 0; i < MAXS; i++) if (match_at(h, hn, nd, m, i, ci)) return (int64_t)i;
  return -1;
}
static int64_t ref_last(const uint8_t *h, uint64_t hn, const uint8_t *nd, uint64_t m, uint32_t ci) {
  int64_t r = -1;
  if (m == 0) return -1;
  for (uint64_t i = 0; i < MAXS; i++) if (match_at(h, hn, nd, m, i, ci)) r = (int64_t)i;
  return r;
}
/* the result must be a valid string holding exactly bytes [lo,hi) of the source */
static void check_slice(const str_t *out, const uint8_t *src, uint64_t lo, uint64_t hi, const char *what) {
  (void)what;
  ASSERT(S_inv(&out->f0), "result satisfies the string/buffer invariant");
  ASSERT(out->f0.f1 == hi - lo, "result has exactly the size of the clamped range");
  for (uint64_t i = 0; i < MAXS; i++) if (i < hi - lo && i < out->f0.f1) ASSERT(out->f0.f0[i] == src[lo + i], "result byte equals the source byte of the clamped range");
}

int vp_harness_main(void) {
  str_t s, out; uint8_t sh[NMAX + 1];
  S_mk_mode(&s.f0, sh, SRC_HEAP);
  uint64_t n = s.f0.f1; ASSUME(n <= MAXS);
  const uint8_t *data0 = s.f0.f0;
  uint64_t lo = 0, hi = 0;
#ifdef FAULT
  { uint32_t fk = vp_in_u32(); ASSUME(fk < FAULT); vp_fail_alloc_at = vp_alloc_count + (int)fk; }   /* C19 */
#endif
#if OP == 1
  int64_t start = (int64_t)vp_in_u64(); uint64_t count = vp_in_u64();
  /* reference in arithmetic that cannot wrap: lo is clamped into [0,n] first */
  int empty = 0;
  if (start < 0) { uint64_t back = (uint64_t)0 - (uint64_t)start; lo = back >= n ? 0 : n - back; }   /* start == INT64_MIN: back = 2^63 >= n */
  else if ((uint64_t)start > n) empty = 1; else lo = (uint64_t)start;
  if (empty) { lo = 0; hi = 0; } else hi = (count > n - lo) ? n : lo + count;
#if FORM == 1
  vp_substr(&out, &s, start, count);
#else
  ASSUME(count == ~(uint64_t)0);
  vp_substr1(&out, &s, start);
#endif
  #if FORM == 1
  if (count >= ((uint64_t)1 << 63) && count != ~(uint64_t)0 && start > 0 && !empty) REACH("count within start of SIZE_MAX");
#endif
#elif OP == 2
  uint64_t k = vp_in_u64();
  uint64_t mn = k < n ? k : n;
#if FORM == 1
  vp_left(&out, &s, k); lo = 0; hi = mn;
#else
  vp_right(&out, &s, k); lo = n - mn; hi = n;
  if (k > n && k < 2 * n) REACH("size < n < 2*size");
#endif
#elif OP == 3
  /* character set: a NUL-terminated string of <= M bytes (so NUL itself is never in the set) */
  uint8_t set[M + 1]; uint64_t m = vp_in_u64(); ASSUME(m <= M);
  for (int i = 0; i < M; i++) { set[i] = vp_in_u8(); if ((uint64_t)i < m) ASSUME(set[i] != 0); }
  uint8_t *zs = (uint8_t *)vp_exact(m + 1); for (uint64_t i = 0; i < M; i++) if (i < m) zs[i] = set[i]; zs[m] = 0;
#if FORM == 4
  { static const uint8_t ws[4] = {' ', '\t', '\r', '\n'}; ASSUME(m == M && M >= 2); /* unused set */
    uint64_t a = 0; while (a < n && (sh[a] == ws[0] || sh[a] == ws[1] || sh[a] == ws[2] || sh[a] == ws[3])) a++;
    uint64_t b = n; while (b > a && (sh[b - 1] == ws[0] || sh[b - 1] == ws[1] || sh[b - 1] == ws[2] || sh[b - 1] == ws[3])) b--;
    lo = a; hi = b; vp_trim_dflt(&out, &s); }
#else
  { uint64_t a = 0, b = n;
#define INSET(c) ((m > 0 && (c) == set[0]) || (m > 1 && (c) == set[1]))   /* M <= 2 */
#if FORM == 1 || FORM == 3
    while (a < n && INSET(sh[a])) a++;
#endif
#if FORM == 2 || FORM == 3
    while (b > a && INSET(sh[b - 1])) b--;
#endif
    lo = a; hi = b;
#if FORM == 1
    vp_trim_left(&out, &s, zs);
#elif FORM == 2
    vp_trim_right(&out, &s, zs);
#else
    vp_trim(&out, &s, zs);
#endif
    if ((FORM == 2 || a > 0) && (FORM == 1 || b < n) && a < b) REACH("something trimmed, something left"); }
#endif
#elif OP == 4
  uint32_t ci = vp_in_u32(); ASSUME(ci <= 1);
  str_t sep; uint8_t sp[NMAX + 1];
  S_mk_mode(&sep.f0, sp, 0);
  uint64_t m = sep.f0.f1; ASSUME(m <= M);
#if FORM == 1
  ASSUME(m == 1);
#elif FORM == 2
  for (uint64_t i = 0; i < M; i++) if (i < m) ASSUME(sp[i] != 0);    /* C-string separator: no embedded NUL (it would be cut there) */
#endif
  int64_t f = (WHICH <= 2) ? ref_first(sh, n, sp, m, ci) : ref_last(sh, n, sp, m, ci);
  /* expected slice per the property: before_first/after_last return the whole string, the other two the empty string, when the separator does not occur */
  if (WHICH == 1) { lo = 0; hi = f >= 0 ? (uint64_t)f : n; }
  else if (WHICH == 2) { if (f >= 0) { lo = (uint64_t)f + m; hi = n; } else { lo = 0; hi = 0; } }
  else if (WHICH == 3) { lo = 0; hi = f >= 0 ? (uint64_t)f : 0; }
  else { if (f >= 0) { lo = (uint64_t)f + m; hi = n; } else { lo = 0; hi = n; } }
#define CALL3(name) do { if (FORM == 1) name##_ch(&out, &s, sp[0], ci); else if (FORM == 2) name##_cstr(&out, &s, sep.f0.f0, ci); else name##_str(&out, &s, &sep, ci); } while (0)
#if WHICH == 1
  CALL3(vp_before_first);
#elif WHICH == 2
  CALL3(vp_after_first);
#elif WHICH == 3
  CALL3(vp_before_last);
#else
  CALL3(vp_after_last);
#endif
  if (f > 0 && (uint64_t)f + m < n) REACH("separator strictly inside the string");
#endif
#ifdef FAULT
  vp_fail_alloc_at = -1;
  if (vp_exc_pending) {
    ASSERT(vp_exc_kind == VP_EXC_BAD_ALLOC, "allocation failure surfaces as std::bad_alloc");
    ASSERT(S_inv(&s.f0) && s.f0.f0 == data0 && s.f0.f1 == n, "source untouched by the failed operation");
    REACH("allocation-failure path");
    vp_clear_exception(); S_destroy(&s.f0);
    ASSERT(vp_live_blocks == 0, "no leak after the failed operation");
    REACH("end of harness");
    return 0;
  }
#endif
  ASSERT(!vp_exc_pending, "slicing does not throw (in particular no bad_alloc / length error from an oversized request)");
  check_slice(&out, sh, lo, hi, "");
  ASSERT(s.f0.f0 == data0 && s.f0.f1 == n, "source keeps its data pointer and size");
  for (uint64_t i = 0; i < MAXS; i++) if (i < n) ASSERT(s.f0.f0[i] == sh[i], "source bytes unchanged");
  ASSERT(!(out.f0.f1 >= VP_SSO && n >= VP_SSO) || out.f0.f0 != s.f0.f0, "result owns its own storage (no block shared with the source)");
  vp_str_dtor(&out);
  ASSERT(S_inv(&s.f0), "source still valid after the result is destroyed");
  S_destroy(&s.f0);
#if OP == 4
  S_destroy(&sep.f0);
#endif
  ASSERT(vp_live_blocks == 0, "no leak");
  REACH("end of harness");
  return 0;
}

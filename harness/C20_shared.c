/* C20_shared.c -- concurrent use needs no locking: decided as the sufficient condition "no hidden shared mutable state".
 * CBMC's interleaving engine refuses pointer-using threads, so schedules are NOT explored.  What the solver decides, for every input:
 *  (i)  objects that threads share and only pass through const interfaces are never WRITTEN (every store of the translated code is checked against
 *       the registered read-only regions: a store of an unchanged value is still a data race);
 *  (ii) every module-level object that is not a constant is bit-identical after a second call to its value after the first (the only permitted
 *       write is ABI-guarded one-time initialisation);
 *  (iii) the second call returns what the first returned (no state carried between calls).
 * From (i)-(iii) two threads share only read-only locations: a non-interference argument that is stated, not mechanised.
 *  -DGROUP=1 -DOP=<k>: const operations on two shared strings (a heap-backed, b in-object)   -DGROUP=2 -DOP=<k>: thread-local work, called twice */
#include "vp_harness.h"
#include "k.h"
#ifdef __CPROVER__
#define RO_ALLOC(n) vp_heap_alloc(n)
static void ro_seal(const void *p, uint64_t n) { ASSERT(vp_ro_n < VP_MAX_RO, "read-only region table large enough"); vp_ro_base[vp_ro_n] = p; vp_ro_len[vp_ro_n] = n; vp_ro_n++; }
static void ro_open(void) { vp_ro_n = 0; }
#else
void *vp_ro_alloc(uint64_t n); void vp_ro_seal(void *p, uint64_t n); void vp_ro_unseal(void *p, uint64_t n);
#define RO_ALLOC(n) vp_ro_alloc(n)
static void *ro_p[4]; static uint64_t ro_l[4]; static int ro_k;
static void ro_seal(const void *p, uint64_t n) { long a = (long)p; if ((a & 4095) == 0) { vp_ro_seal((void *)p, n); ro_p[ro_k] = (void *)p; ro_l[ro_k] = n; ro_k++; } }   /* only page-backed blocks can be protected natively */
static void ro_open(void) { for (int i = 0; i < ro_k; i++) vp_ro_unseal(ro_p[i], ro_l[i]); ro_k = 0; }
#endif

#if GROUP == 1
typedef vp_string_t str_t;
#define MAXS 5
VP_BUF_HELPERS(S, __typeof__(((str_t *)0)->f0), uint8_t, VP_SSO, MAXS)
int vp_harness_main(void) {
  /* a: heap-backed (4..5 bytes, small-string limit 4) in a sealable block; b: in-object */
  str_t a, b; uint8_t sa[MAXS + 1], sb[MAXS + 1];
  uint64_t an = vp_in_u64(); ASSUME(an >= VP_SSO && an <= MAXS);
  a.f0.f1 = an; for (int i = 0; i < VP_SSO; i++) a.f0.f2.a[i] = vp_in_u8();
  a.f0.f0 = (uint8_t *)RO_ALLOC(an + 1); ASSUME(a.f0.f0 != 0);
  for (uint64_t i = 0; i < MAXS; i++) if (i < an) { sa[i] = vp_in_u8(); ASSUME(sa[i] < 0x80); a.f0.f0[i] = sa[i]; } a.f0.f0[an] = 0;
  S_mk_mode(&b.f0, sb, 0); uint64_t bn = b.f0.f1;
  uint32_t cs = vp_in_u32(); ASSUME(cs <= 1); uint64_t k = vp_in_u64();
  ro_seal(a.f0.f0, an + 1); ro_seal(&a, sizeof a); ro_seal(&b, sizeof b);
  vp_globals_snapshot();
  uint64_t r1 = 0, r2 = 0; str_t o1, o2; int has_o = 0;
#if OP == 1
  r1 = (uint64_t)vp_str_compare(&a, &b, cs); r2 = (uint64_t)vp_str_compare(&a, &b, cs);
#elif OP == 2
  r1 = (uint64_t)vp_find_str(&a, k, &b, cs); r2 = (uint64_t)vp_find_str(&a, k, &b, cs);
#elif OP == 3
  r1 = vp_str_hash(&a); r2 = vp_str_hash(&a);
#elif OP == 4
  r1 = vp_str_eq_cstr(&a, a.f0.f0); r2 = vp_str_eq_cstr(&a, a.f0.f0);      /* goes through c_str() */
#elif OP == 5
  vp_substr(&o1, &a, (int64_t)k, ~(uint64_t)0); vp_substr(&o2, &a, (int64_t)k, ~(uint64_t)0); has_o = 1;
#elif OP == 6
  vp_str_to_upper(&o1, &a); vp_str_to_upper(&o2, &a); has_o = 1;
#elif OP == 7
  vp_concat(&o1, &a, &b); vp_concat(&o2, &a, &b); has_o = 1;
#elif OP == 8
  vp_str_copy_ctor(&o1, &a); vp_str_copy_ctor(&o2, &a); has_o = 1;
#elif OP == 9
  r1 = vp_starts_with_str(&a, &b, cs); r2 = vp_ends_with_str(&a, &b, cs); r2 = r1;
#elif OP == 10
  vp_left(&o1, &a, k); vp_left(&o2, &a, k); has_o = 1;
#endif
  ASSERT(!vp_exc_pending, "const operations on shared strings do not throw");
  ASSERT(vp_globals_unchanged(), "no module-level mutable object is modified by a const operation");
  ASSERT(r1 == r2, "the same call on the same shared objects returns the same result");
  if (has_o) { ASSERT(o1.f0.f1 == o2.f0.f1, "same result size"); for (uint64_t i = 0; i < 2 * MAXS; i++) if (i < o1.f0.f1 && i < o2.f0.f1) ASSERT(o1.f0.f0[i] == o2.f0.f0[i], "same result bytes"); vp_str_dtor(&o1); vp_str_dtor(&o2); }
  ro_open();
  for (uint64_t i = 0; i < MAXS; i++) if (i < an) ASSERT(a.f0.f0[i] == sa[i], "shared string unchanged");
  S_destroy(&b.f0);
  REACH("end of harness");
  return 0;
}
#else
/* ---- GROUP 2: independent work on thread-local objects, twice; module-level state must not change between the calls */
#define SINK_EVENTS 8
#define SINK_COPY 84
#include "sink.h"
void SINKFN(vp_sink_spec)(void *spec) { (void)spec; }
#ifdef __CPROVER__
extern uint8_t vp_render[]; extern uint64_t vp_render_len;
#endif
#define FIRST_CALL_CLEAN() do { ASSERT(vp_globals_unchanged(), "module-level mutable state is written only inside ABI-guarded one-time initialisation (first call)"); vp_globals_snapshot(); } while (0)
int vp_harness_main(void) {
  vp_globals_snapshot();      /* re-taken at the end of every ABI-guarded one-time initialisation: any other write to module-level state is caught by the FIRST call already */
#if OP == 1
  /* ST::format's double renderer, including renderings longer than its 64-byte stack buffer */
  vp_format_spec_t s; for (unsigned i = 0; i < sizeof s; i++) ((uint8_t *)&s)[i] = 0; s.f1 = (uint32_t)-1; s.f2 = (uint32_t)-1;
  uint64_t b1 = vp_in_u64(), b2 = vp_in_u64(); double v1 = *(double *)&b1, v2 = *(double *)&b2;
#ifdef __CPROVER__
  vp_render_len = vp_in_u64(); ASSUME(vp_render_len >= 1 && vp_render_len <= 80); for (int i = 0; i < 80; i++) { vp_render[i] = vp_in_u8(); ASSUME(vp_render[i] != 0 && vp_render[i] < 0x80); }
#else
  (void)vp_in_u64(); for (int i = 0; i < 80; i++) (void)vp_in_u8(); v1 = 1e80; v2 = -1e90; s.f5 = 1;   /* native: fixed notation of large values is longer than 64 characters */
#endif
  vp_format_type_double(&s, v1);
  FIRST_CALL_CLEAN();
#ifdef __CPROVER__
  vp_render_len = vp_in_u64(); ASSUME(vp_render_len >= 1 && vp_render_len <= 80);     /* the second rendering has its own, independent length */
#endif
  vp_format_type_double(&s, v2);
#elif OP == 2
  vp_string_t o; vp_from_int_llong(&o, (int64_t)vp_in_u64(), 16, 0); vp_str_dtor(&o);
  FIRST_CALL_CLEAN();
  vp_from_int_llong(&o, (int64_t)vp_in_u64(), 16, 1); vp_str_dtor(&o);
#elif OP == 3
  { uint8_t in[3], out[3]; for (int i = 0; i < 3; i++) in[i] = vp_in_u8(); vp_string_t e; vp_b64_encode(&e, in, 3); (void)vp_b64_decode_to(&e, out, 3); vp_str_dtor(&e);
    FIRST_CALL_CLEAN();
    for (int i = 0; i < 3; i++) in[i] = vp_in_u8(); vp_hex_encode(&e, in, 2); (void)vp_hex_decode_to(&e, out, 2); vp_str_dtor(&e); }
#elif OP == 4
  { uint8_t *in = (uint8_t *)vp_exact(3); for (int i = 0; i < 3; i++) in[i] = vp_in_u8(); T_vp_dtor_c16_a0 o; vp_conv_u8_u16(&o, in, 3, 1); if (!vp_exc_pending) vp_dtor_c16(&o);
    FIRST_CALL_CLEAN();
    for (int i = 0; i < 3; i++) in[i] = vp_in_u8(); vp_conv_u8_u16(&o, in, 3, 1); if (!vp_exc_pending) vp_dtor_c16(&o); }
#endif
  ASSERT(!vp_exc_pending, "no exception");
  ASSERT(vp_globals_unchanged(), "module-level mutable state is identical after the second call (only ABI-guarded one-time initialisation may write to it)");
  REACH("end of harness");
  return 0;
}
#endif

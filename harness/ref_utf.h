/* ref_utf.h -- independent reference transcoder written from the property text (C01/C02/C03), not from the
 * library's code: a source is first cut, left to right, into ITEMS (a decoded value, or "malformed unit"),
 * then the items are rendered in the target encoding under the requested validation mode.
 * Tolerated by design (decoded, not malformed): overlong UTF-8, encoded surrogates, 4-byte forms > U+10FFFF,
 * a low surrogate followed by a high one. */
#ifndef REF_UTF_H
#define REF_UTF_H
#include <stdint.h>

#define MODE_ASSUME_VALID 0
#define MODE_SUBSTITUTE 1
#define MODE_CHECK 2

typedef struct { uint32_t v; uint8_t bad; } ref_item;

/* number of bytes announced by a UTF-8 lead byte; 0 = cannot start a sequence */
static int ref_u8_len(uint8_t b) {
  if (b <= 0x7F) return 1;
  if (b >= 0xC0 && b <= 0xDF) return 2;
  if (b >= 0xE0 && b <= 0xEF) return 3;
  if (b >= 0xF0 && b <= 0xF7) return 4;
  return 0; /* 80..BF stray continuation, F8..FF never valid */
}
static int ref_is_cont(uint8_t b) { return b >= 0x80 && b <= 0xBF; }

#define REF_DECODE_U8(NMAX)                                                                          \
  static uint64_t ref_decode_u8(const uint8_t *s, uint64_t n, ref_item *it) {                        \
    uint64_t i = 0, k = 0;                                                                           \
    for (int guard = 0; guard < (NMAX); guard++) {                                                   \
      if (i >= n) break;                                                                             \
      int len = ref_u8_len(s[i]); int ok = len != 0;                                                 \
      if (ok && i + (uint64_t)len > n) ok = 0;                                                       \
      if (ok) for (int j = 1; j < 4; j++) if (j < len && !ref_is_cont(s[i + j])) ok = 0;             \
      if (!ok) { it[k].v = 0xFFFD; it[k].bad = 1; k++; i += 1; continue; }                           \
      uint32_t v;                                                                                    \
      if (len == 1) v = s[i];                                                                        \
      else if (len == 2) v = ((uint32_t)(s[i] - 0xC0) * 64u) + (uint32_t)(s[i + 1] - 0x80);          \
      else if (len == 3) v = ((uint32_t)(s[i] - 0xE0) * 4096u) + ((uint32_t)(s[i + 1] - 0x80) * 64u) + (uint32_t)(s[i + 2] - 0x80); \
      else v = ((uint32_t)(s[i] - 0xF0) * 262144u) + ((uint32_t)(s[i + 1] - 0x80) * 4096u) + ((uint32_t)(s[i + 2] - 0x80) * 64u) + (uint32_t)(s[i + 3] - 0x80); \
      it[k].v = v; it[k].bad = 0; k++; i += (uint64_t)len;                                           \
    }                                                                                                \
    return k;                                                                                        \
  }

#define REF_DECODE_U16(NMAX)                                                                         \
  static uint64_t ref_decode_u16(const uint16_t *s, uint64_t n, ref_item *it) {                      \
    uint64_t i = 0, k = 0;                                                                           \
    for (int guard = 0; guard < (NMAX); guard++) {                                                   \
      if (i >= n) break;                                                                             \
      uint16_t u = s[i];                                                                             \
      int hi = u >= 0xD800 && u <= 0xDBFF, lo = u >= 0xDC00 && u <= 0xDFFF;                          \
      if (!hi && !lo) { it[k].v = u; it[k].bad = 0; k++; i++; continue; }                            \
      if (i + 1 < n) {                                                                               \
        uint16_t w = s[i + 1];                                                                       \
        int whi = w >= 0xD800 && w <= 0xDBFF, wlo = w >= 0xDC00 && w <= 0xDFFF;                      \
        if (hi && wlo) { it[k].v = 0x10000u + ((uint32_t)(u - 0xD800) * 1024u) + (uint32_t)(w - 0xDC00); it[k].bad = 0; k++; i += 2; continue; } \
        if (lo && whi) { it[k].v = 0x10000u + ((uint32_t)(w - 0xD800) * 1024u) + (uint32_t)(u - 0xDC00); it[k].bad = 0; k++; i += 2; continue; } \
      }                                                                                              \
      it[k].v = 0xFFFD; it[k].bad = 1; k++; i++;                                                     \
    }                                                                                                \
    return k;                                                                                        \
  }

#define REF_DECODE_U32(NMAX)                                                                         \
  static uint64_t ref_decode_u32(const uint32_t *s, uint64_t n, ref_item *it) {                      \
    for (uint64_t i = 0; i < (NMAX); i++) if (i < n) { it[i].v = s[i]; it[i].bad = s[i] > 0x10FFFFu; } \
    return n;                                                                                        \
  }
#define REF_DECODE_L1(NMAX)                                                                          \
  static uint64_t ref_decode_l1(const uint8_t *s, uint64_t n, ref_item *it) {                        \
    for (uint64_t i = 0; i < (NMAX); i++) if (i < n) { it[i].v = s[i]; it[i].bad = 0; }              \
    return n;                                                                                        \
  }

/* Renderers: return 1 if the conversion must throw ST::unicode_error, else 0 with *ol = length. */
#define REF_ENCODE_U8(NMAX)                                                                          \
  static int ref_encode_u8(const ref_item *it, uint64_t k, int mode, uint8_t *o, uint64_t *ol) {     \
    uint64_t p = 0;                                                                                  \
    for (uint64_t i = 0; i < (NMAX); i++) if (i < k) {                                               \
      uint32_t v = it[i].v;                                                                          \
      if (it[i].bad || v > 0x10FFFFu) { if (mode == MODE_CHECK) return 1; o[p++] = 0xEF; o[p++] = 0xBF; o[p++] = 0xBD; continue; } \
      if (v <= 0x7F) o[p++] = (uint8_t)v;                                                            \
      else if (v <= 0x7FF) { o[p++] = (uint8_t)(0xC0 + v / 64u); o[p++] = (uint8_t)(0x80 + v % 64u); } \
      else if (v <= 0xFFFF) { o[p++] = (uint8_t)(0xE0 + v / 4096u); o[p++] = (uint8_t)(0x80 + (v / 64u) % 64u); o[p++] = (uint8_t)(0x80 + v % 64u); } \
      else { o[p++] = (uint8_t)(0xF0 + v / 262144u); o[p++] = (uint8_t)(0x80 + (v / 4096u) % 64u); o[p++] = (uint8_t)(0x80 + (v / 64u) % 64u); o[p++] = (uint8_t)(0x80 + v % 64u); } \
    }                                                                                                \
    *ol = p; return 0;                                                                               \
  }
#define REF_ENCODE_U16(NMAX)                                                                         \
  static int ref_encode_u16(const ref_item *it, uint64_t k, int mode, uint16_t *o, uint64_t *ol) {   \
    uint64_t p = 0;                                                                                  \
    for (uint64_t i = 0; i < (NMAX); i++) if (i < k) {                                               \
      uint32_t v = it[i].v;                                                                          \
      if (it[i].bad || v > 0x10FFFFu) { if (mode == MODE_CHECK) return 1; o[p++] = 0xFFFD; continue; } \
      if (v <= 0xFFFF) o[p++] = (uint16_t)v;                                                         \
      else { uint32_t w = v - 0x10000u; o[p++] = (uint16_t)(0xD800 + w / 1024u); o[p++] = (uint16_t)(0xDC00 + w % 1024u); } \
    }                                                                                                \
    *ol = p; return 0;                                                                               \
  }
/* UTF-32 can represent every decoded value, including the tolerated 4-byte UTF-8 forms > U+10FFFF */
#define REF_ENCODE_U32(NMAX)                                                                         \
  static int ref_encode_u32(const ref_item *it, uint64_t k, int mode, uint32_t *o, uint64_t *ol) {   \
    for (uint64_t i = 0; i < (NMAX); i++) if (i < k) {                                               \
      if (it[i].bad) { if (mode == MODE_CHECK) return 1; o[i] = 0xFFFD; } else o[i] = it[i].v;       \
    }                                                                                                \
    *ol = k; return 0;                                                                               \
  }
/* Latin-1: a value >= 0x100 cannot be represented: '?' if substitute_out_of_range, else an error in EVERY mode */
#define REF_ENCODE_L1(NMAX)                                                                          \
  static int ref_encode_l1(const ref_item *it, uint64_t k, int mode, int subst_oor, uint8_t *o, uint64_t *ol) { \
    for (uint64_t i = 0; i < (NMAX); i++) if (i < k) {                                               \
      if (it[i].bad) { if (mode == MODE_CHECK) return 1; o[i] = '?'; continue; }                     \
      if (it[i].v >= 0x100u) { if (!subst_oor) return 1; o[i] = '?'; continue; }                     \
      o[i] = (uint8_t)it[i].v;                                                                       \
    }                                                                                                \
    *ol = k; return 0;                                                                               \
  }
#endif

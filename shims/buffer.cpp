// shims/buffer.cpp -- ST::buffer<T> entry points (C05, C19), one instantiation per element type.
#include "vp_shim.h"
#include "st_charbuffer.h"

#define BUF_SHIMS(SFX, T) \
VP_FN(void, vp_buf_default_##SFX, (ST::buffer<T> *out)) { new (out) ST::buffer<T>(); } VP_END(void) \
VP_FN(void, vp_buf_copy_ctor_##SFX, (ST::buffer<T> *out, const ST::buffer<T> *a)) { new (out) ST::buffer<T>(*a); } VP_END(void) \
VP_FN(void, vp_buf_move_ctor_##SFX, (ST::buffer<T> *out, ST::buffer<T> *a)) { new (out) ST::buffer<T>(std::move(*a)); } VP_END(void) \
VP_FN(void, vp_buf_ptr_ctor_##SFX, (ST::buffer<T> *out, const T *p, size_t n)) { new (out) ST::buffer<T>(p, n); } VP_END(void) \
VP_FN(void, vp_buf_fill_ctor_##SFX, (ST::buffer<T> *out, size_t n, T c)) { new (out) ST::buffer<T>(n, c); } VP_END(void) \
VP_FN(void, vp_buf_dtor_##SFX, (ST::buffer<T> *a)) { a->~buffer(); } VP_END(void) \
VP_FN(void, vp_buf_clear_##SFX, (ST::buffer<T> *a)) { a->clear(); } VP_END(void) \
VP_FN(void, vp_buf_copy_assign_##SFX, (ST::buffer<T> *a, const ST::buffer<T> *b)) { *a = *b; } VP_END(void) \
VP_FN(void, vp_buf_move_assign_##SFX, (ST::buffer<T> *a, ST::buffer<T> *b)) { *a = std::move(*b); } VP_END(void) \
VP_FN(void, vp_buf_allocate_##SFX, (ST::buffer<T> *a, size_t n)) { a->allocate(n); } VP_END(void) \
VP_FN(void, vp_buf_allocate_fill_##SFX, (ST::buffer<T> *a, size_t n, T c)) { a->allocate(n, c); } VP_END(void) \
VP_FN(size_t, vp_buf_size_##SFX, (const ST::buffer<T> *a)) { return a->size(); } VP_END(size_t) \
VP_FN(const T *, vp_buf_data_##SFX, (const ST::buffer<T> *a)) { return a->data(); } VP_END(const T *)

BUF_SHIMS(c8, char)
BUF_SHIMS(c16, char16_t)
BUF_SHIMS(c32, char32_t)
BUF_SHIMS(wc, wchar_t)

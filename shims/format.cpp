// shims/format.cpp -- formatting entry points (C10, C11, C12, C13, C17).  The sink of the real driver
// (format_writer::next_format / parse_format / fetch_prefix / apply_format) is a `final` subclass that
// forwards every append / append_char to two C functions defined by the harness, so virtual dispatch
// ends in an observable log.  No formatting logic lives here.
#include "vp_shim.h"
#include "st_format.h"
#include "st_string.h"

#include "log_writer.h"

// ---- C10: parser driven directly (every field is parsed, the spec is logged), and the real apply_format for small arities
VP_FN(void, vp_fmt_parse_all, (const char *fmt)) {
    vp_log_writer w(fmt);
    while (w.next_format()) { ST::format_spec spec = w.parse_format(); vp_sink_spec(&spec); }
} VP_END(void)
VP_FN(void, vp_fmt_apply0, (const char *fmt)) { vp_log_writer w(fmt); ST::apply_format(w); } VP_END(void)
VP_FN(void, vp_fmt_apply1_cstr, (const char *fmt, const char *a)) { vp_log_writer w(fmt); ST::apply_format(w, a); } VP_END(void)
VP_FN(void, vp_fmt_apply2_cstr, (const char *fmt, const char *a, const char *b)) { vp_log_writer w(fmt); ST::apply_format(w, a, b); } VP_END(void)
VP_FN(void, vp_fmt_apply1_char, (const char *fmt, int a)) { vp_log_writer w(fmt); ST::apply_format(w, (char)a); } VP_END(void)

// ---- C11: per-type renderers with the spec given directly
VP_FN(void, vp_format_string, (const ST::format_spec *spec, const char *text, size_t size, int dflt_align)) {
    vp_log_writer w(""); ST::format_string(*spec, w, text, size, (ST::alignment_t)dflt_align); } VP_END(void)
VP_FN(void, vp_format_numeric_string, (const ST::format_spec *spec, const char *text, size_t size, int ntype)) {
    vp_log_writer w(""); _ST_PRIVATE::format_numeric_string(*spec, w, text, size, (_ST_PRIVATE::numeric_type)ntype); } VP_END(void)
VP_FN(size_t, vp_pad_size, (const ST::format_spec *spec, size_t size, int ntype)) { return _ST_PRIVATE::pad_size(*spec, size, (_ST_PRIVATE::numeric_type)ntype); } VP_END(size_t)
VP_FN(void, vp_format_char, (const ST::format_spec *spec, int ch)) { vp_log_writer w(""); _ST_PRIVATE::format_char(*spec, w, ch); } VP_END(void)
// integer and character arguments are passed as long long and narrowed here, so that a C harness needs no sub-int calling convention
#define FT_SHIM(NAME, T) VP_FN(void, vp_format_type_##NAME, (const ST::format_spec *spec, long long v)) { vp_log_writer w(""); ST::format_type(*spec, w, (T)v); } VP_END(void)
FT_SHIM(bool, bool)
FT_SHIM(char, char)
FT_SHIM(wchar, wchar_t)
FT_SHIM(char16, char16_t)
FT_SHIM(char32, char32_t)
FT_SHIM(schar, signed char)
FT_SHIM(uchar, unsigned char)
FT_SHIM(short, short)
FT_SHIM(ushort, unsigned short)
FT_SHIM(int, int)
FT_SHIM(uint, unsigned int)
FT_SHIM(long, long)
FT_SHIM(ulong, unsigned long)
FT_SHIM(llong, long long)
FT_SHIM(ullong, unsigned long long)
VP_FN(void, vp_format_type_cstr, (const ST::format_spec *spec, const char *v)) { vp_log_writer w(""); ST::format_type(*spec, w, v); } VP_END(void)
VP_FN(void, vp_format_type_double, (const ST::format_spec *spec, double v)) { vp_log_writer w(""); ST::format_type(*spec, w, v); } VP_END(void)
VP_FN(void, vp_format_type_float, (const ST::format_spec *spec, float v)) { vp_log_writer w(""); ST::format_type(*spec, w, v); } VP_END(void)
VP_FN(void, vp_format_type_string, (const ST::format_spec *spec, const ST::string *s)) { vp_log_writer w(""); ST::format_type(*spec, w, *s); } VP_END(void)
// sequential vs &N selection with two arguments of different types through the real apply_format
VP_FN(void, vp_fmt_apply2_int_cstr, (const char *fmt, int a, const char *b)) { vp_log_writer w(fmt); ST::apply_format(w, a, b); } VP_END(void)
VP_FN(void, vp_fmt_apply3_cstr, (const char *fmt, const char *a, const char *b, const char *c)) { vp_log_writer w(fmt); ST::apply_format(w, a, b, c); } VP_END(void)
VP_FN(void, vp_str_from_validated, (ST::string *out, const char *p, size_t n)) { new (out) ST::string(ST::string::from_validated(p, n)); } VP_END(void)
VP_FN(void, vp_str_dtor, (ST::string *s)) { s->~string(); } VP_END(void)

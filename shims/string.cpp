// shims/string.cpp -- ST::string entry points for comparison, searching, slicing and replacing (C04, C06, C07, C08, C09, C18).
// Every wrapper forwards to exactly one public overload; no logic of its own.
#include "vp_shim.h"
#include "st_string.h"

typedef ST::case_sensitivity_t CS;
typedef ST::utf_validation_t V;
using ST::string;

// ---- life cycle
VP_FN(void, vp_str_dtor, (string *s)) { s->~string(); } VP_END(void)
VP_FN(void, vp_str_copy_ctor, (string *out, const string *s)) { new (out) string(*s); } VP_END(void)
VP_FN(void, vp_str_move_ctor, (string *out, string *s)) { new (out) string(std::move(*s)); } VP_END(void)
VP_FN(void, vp_str_copy_assign, (string *a, const string *b)) { *a = *b; } VP_END(void)
VP_FN(void, vp_str_move_assign, (string *a, string *b)) { *a = std::move(*b); } VP_END(void)
VP_FN(void, vp_str_clear, (string *a)) { a->clear(); } VP_END(void)
VP_FN(void, vp_str_from_validated, (string *out, const char *p, size_t n)) { new (out) string(string::from_validated(p, n)); } VP_END(void)

// ---- C06: static buffer compare per element type, string compare family, hashes, case mapping
#define CMP_SHIMS(SFX, T) \
VP_FN(int, vp_bufcmp_##SFX, (const T *l, size_t ls, const T *r, size_t rs)) { return ST::buffer<T>::compare(l, ls, r, rs); } VP_END(int) \
VP_FN(int, vp_bufcmpn_##SFX, (const T *l, size_t ls, const T *r, size_t rs, size_t maxlen)) { return ST::buffer<T>::compare(l, ls, r, rs, maxlen); } VP_END(int) \
VP_FN(int, vp_bufcmp_obj_##SFX, (const ST::buffer<T> *a, const ST::buffer<T> *b)) { return a->compare(*b); } VP_END(int) \
VP_FN(int, vp_bufcmp_cstr_##SFX, (const ST::buffer<T> *a, const T *z)) { return a->compare(z); } VP_END(int) \
VP_FN(int, vp_bufcmpn_obj_##SFX, (const ST::buffer<T> *a, const ST::buffer<T> *b, size_t n)) { return a->compare_n(*b, n); } VP_END(int) \
VP_FN(int, vp_bufcmpn_cstr_##SFX, (const ST::buffer<T> *a, const T *z, size_t n)) { return a->compare_n(z, n); } VP_END(int) \
VP_FN(bool, vp_bufeq_obj_##SFX, (const ST::buffer<T> *a, const ST::buffer<T> *b)) { return *a == *b; } VP_END(bool) \
VP_FN(bool, vp_bufne_obj_##SFX, (const ST::buffer<T> *a, const ST::buffer<T> *b)) { return *a != *b; } VP_END(bool) \
VP_FN(bool, vp_buflt_obj_##SFX, (const ST::buffer<T> *a, const ST::buffer<T> *b)) { return *a < *b; } VP_END(bool)

CMP_SHIMS(c8, char)
CMP_SHIMS(c16, char16_t)
CMP_SHIMS(c32, char32_t)
CMP_SHIMS(wc, wchar_t)

VP_FN(int, vp_str_compare, (const string *a, const string *b, int cs)) { return a->compare(*b, (CS)cs); } VP_END(int)
VP_FN(int, vp_str_compare_cstr, (const string *a, const char *z, int cs)) { return a->compare(z, (CS)cs); } VP_END(int)
VP_FN(int, vp_str_compare_n, (const string *a, const string *b, size_t n, int cs)) { return a->compare_n(*b, n, (CS)cs); } VP_END(int)
VP_FN(int, vp_str_compare_n_cstr, (const string *a, const char *z, size_t n, int cs)) { return a->compare_n(z, n, (CS)cs); } VP_END(int)
VP_FN(int, vp_str_compare_i, (const string *a, const string *b)) { return a->compare_i(*b); } VP_END(int)
VP_FN(int, vp_str_compare_i_cstr, (const string *a, const char *z)) { return a->compare_i(z); } VP_END(int)
VP_FN(int, vp_str_compare_ni, (const string *a, const string *b, size_t n)) { return a->compare_ni(*b, n); } VP_END(int)
VP_FN(int, vp_str_compare_ni_cstr, (const string *a, const char *z, size_t n)) { return a->compare_ni(z, n); } VP_END(int)
VP_FN(bool, vp_str_eq, (const string *a, const string *b)) { return *a == *b; } VP_END(bool)
VP_FN(bool, vp_str_ne, (const string *a, const string *b)) { return *a != *b; } VP_END(bool)
VP_FN(bool, vp_str_lt, (const string *a, const string *b)) { return *a < *b; } VP_END(bool)
VP_FN(bool, vp_str_eq_cstr, (const string *a, const char *z)) { return *a == z; } VP_END(bool)
VP_FN(bool, vp_str_ne_cstr, (const string *a, const char *z)) { return *a != z; } VP_END(bool)
VP_FN(bool, vp_str_less_i, (const string *a, const string *b)) { return ST::less_i()(*a, *b); } VP_END(bool)
VP_FN(bool, vp_str_equal_i, (const string *a, const string *b)) { return ST::equal_i()(*a, *b); } VP_END(bool)
VP_FN(size_t, vp_str_hash, (const string *a)) { return ST::hash()(*a); } VP_END(size_t)
VP_FN(size_t, vp_str_hash_i, (const string *a)) { return ST::hash_i()(*a); } VP_END(size_t)
VP_FN(size_t, vp_str_std_hash, (const string *a)) { return std::hash<string>()(*a); } VP_END(size_t)
VP_FN(void, vp_str_to_upper, (string *out, const string *a)) { new (out) string(a->to_upper()); } VP_END(void)
VP_FN(void, vp_str_to_lower, (string *out, const string *a)) { new (out) string(a->to_lower()); } VP_END(void)

// ---- C07: searching
VP_FN(ST_ssize_t, vp_find_ch, (const string *s, size_t start, char c, int cs)) { return s->find(start, c, (CS)cs); } VP_END(ST_ssize_t)
VP_FN(ST_ssize_t, vp_find_cstr, (const string *s, size_t start, const char *z, int cs)) { return s->find(start, z, (CS)cs); } VP_END(ST_ssize_t)
VP_FN(ST_ssize_t, vp_find_pn, (const string *s, size_t start, const char *p, size_t n, int cs)) { return s->find(start, p, n, (CS)cs); } VP_END(ST_ssize_t)
VP_FN(ST_ssize_t, vp_find_str, (const string *s, size_t start, const string *n, int cs)) { return s->find(start, *n, (CS)cs); } VP_END(ST_ssize_t)
VP_FN(ST_ssize_t, vp_find0_ch, (const string *s, char c, int cs)) { return s->find(c, (CS)cs); } VP_END(ST_ssize_t)
VP_FN(ST_ssize_t, vp_find0_cstr, (const string *s, const char *z, int cs)) { return s->find(z, (CS)cs); } VP_END(ST_ssize_t)
VP_FN(ST_ssize_t, vp_find0_pn, (const string *s, const char *p, size_t n, int cs)) { return s->find(p, n, (CS)cs); } VP_END(ST_ssize_t)
VP_FN(ST_ssize_t, vp_find0_str, (const string *s, const string *n, int cs)) { return s->find(*n, (CS)cs); } VP_END(ST_ssize_t)
VP_FN(ST_ssize_t, vp_find_last_ch, (const string *s, size_t max, char c, int cs)) { return s->find_last(max, c, (CS)cs); } VP_END(ST_ssize_t)
VP_FN(ST_ssize_t, vp_find_last_cstr, (const string *s, size_t max, const char *z, int cs)) { return s->find_last(max, z, (CS)cs); } VP_END(ST_ssize_t)
VP_FN(ST_ssize_t, vp_find_last_pn, (const string *s, size_t max, const char *p, size_t n, int cs)) { return s->find_last(max, p, n, (CS)cs); } VP_END(ST_ssize_t)
VP_FN(ST_ssize_t, vp_find_last_str, (const string *s, size_t max, const string *n, int cs)) { return s->find_last(max, *n, (CS)cs); } VP_END(ST_ssize_t)
VP_FN(ST_ssize_t, vp_find_last0_ch, (const string *s, char c, int cs)) { return s->find_last(c, (CS)cs); } VP_END(ST_ssize_t)
VP_FN(ST_ssize_t, vp_find_last0_cstr, (const string *s, const char *z, int cs)) { return s->find_last(z, (CS)cs); } VP_END(ST_ssize_t)
VP_FN(ST_ssize_t, vp_find_last0_pn, (const string *s, const char *p, size_t n, int cs)) { return s->find_last(p, n, (CS)cs); } VP_END(ST_ssize_t)
VP_FN(ST_ssize_t, vp_find_last0_str, (const string *s, const string *n, int cs)) { return s->find_last(*n, (CS)cs); } VP_END(ST_ssize_t)
VP_FN(bool, vp_contains_ch, (const string *s, char c, int cs)) { return s->contains(c, (CS)cs); } VP_END(bool)
VP_FN(bool, vp_contains_cstr, (const string *s, const char *z, int cs)) { return s->contains(z, (CS)cs); } VP_END(bool)
VP_FN(bool, vp_contains_pn, (const string *s, const char *p, size_t n, int cs)) { return s->contains(p, n, (CS)cs); } VP_END(bool)
VP_FN(bool, vp_contains_str, (const string *s, const string *n, int cs)) { return s->contains(*n, (CS)cs); } VP_END(bool)
VP_FN(bool, vp_starts_with_str, (const string *s, const string *n, int cs)) { return s->starts_with(*n, (CS)cs); } VP_END(bool)
VP_FN(bool, vp_starts_with_cstr, (const string *s, const char *z, int cs)) { return s->starts_with(z, (CS)cs); } VP_END(bool)
VP_FN(bool, vp_ends_with_str, (const string *s, const string *n, int cs)) { return s->ends_with(*n, (CS)cs); } VP_END(bool)
VP_FN(bool, vp_ends_with_cstr, (const string *s, const char *z, int cs)) { return s->ends_with(z, (CS)cs); } VP_END(bool)

// ---- C08: slicing
VP_FN(void, vp_substr, (string *out, const string *s, ST_ssize_t start, size_t count)) { new (out) string(s->substr(start, count)); } VP_END(void)
VP_FN(void, vp_substr1, (string *out, const string *s, ST_ssize_t start)) { new (out) string(s->substr(start)); } VP_END(void)
VP_FN(void, vp_left, (string *out, const string *s, size_t n)) { new (out) string(s->left(n)); } VP_END(void)
VP_FN(void, vp_right, (string *out, const string *s, size_t n)) { new (out) string(s->right(n)); } VP_END(void)
VP_FN(void, vp_trim_left, (string *out, const string *s, const char *set)) { new (out) string(s->trim_left(set)); } VP_END(void)
VP_FN(void, vp_trim_right, (string *out, const string *s, const char *set)) { new (out) string(s->trim_right(set)); } VP_END(void)
VP_FN(void, vp_trim, (string *out, const string *s, const char *set)) { new (out) string(s->trim(set)); } VP_END(void)
VP_FN(void, vp_trim_dflt, (string *out, const string *s)) { new (out) string(s->trim()); } VP_END(void)
#define BA_SHIMS(NAME) \
VP_FN(void, vp_##NAME##_ch, (string *out, const string *s, char c, int cs)) { new (out) string(s->NAME(c, (CS)cs)); } VP_END(void) \
VP_FN(void, vp_##NAME##_cstr, (string *out, const string *s, const char *z, int cs)) { new (out) string(s->NAME(z, (CS)cs)); } VP_END(void) \
VP_FN(void, vp_##NAME##_str, (string *out, const string *s, const string *sep, int cs)) { new (out) string(s->NAME(*sep, (CS)cs)); } VP_END(void)
BA_SHIMS(before_first)
BA_SHIMS(after_first)
BA_SHIMS(before_last)
BA_SHIMS(after_last)

// ---- C09: replace (no container involved); split/tokenize live in shims/split.cpp (vector model)
VP_FN(void, vp_replace_str, (string *out, const string *s, const string *from, const string *to, int cs)) { new (out) string(s->replace(*from, *to, (CS)cs)); } VP_END(void)
VP_FN(void, vp_replace_cstr, (string *out, const string *s, const char *from, const char *to, int cs, int v)) { new (out) string(s->replace(from, to, (CS)cs, (V)v)); } VP_END(void)
VP_FN(void, vp_replace_str_cstr, (string *out, const string *s, const string *from, const char *to, int cs, int v)) { new (out) string(s->replace(*from, to, (CS)cs, (V)v)); } VP_END(void)
VP_FN(void, vp_replace_cstr_str, (string *out, const string *s, const char *from, const string *to, int cs, int v)) { new (out) string(s->replace(from, *to, (CS)cs, (V)v)); } VP_END(void)

// ---- concatenation / fill (C04, C18)
VP_FN(void, vp_concat, (string *out, const string *a, const string *b)) { new (out) string(*a + *b); } VP_END(void)
VP_FN(void, vp_concat_cstr, (string *out, const string *a, const char *z)) { new (out) string(*a + z); } VP_END(void)
VP_FN(void, vp_cstr_concat, (string *out, const char *z, const string *a)) { new (out) string(z + *a); } VP_END(void)
VP_FN(void, vp_concat_c32, (string *out, const string *a, char32_t c)) { new (out) string(*a + c); } VP_END(void)
VP_FN(void, vp_c32_concat, (string *out, char32_t c, const string *a)) { new (out) string(c + *a); } VP_END(void)
VP_FN(void, vp_concat_ch, (string *out, const string *a, char c)) { new (out) string(*a + c); } VP_END(void)
VP_FN(void, vp_append, (string *a, const string *b)) { *a += *b; } VP_END(void)
VP_FN(void, vp_append_cstr, (string *a, const char *z)) { *a += z; } VP_END(void)
VP_FN(void, vp_append_c32, (string *a, char32_t c)) { *a += c; } VP_END(void)
VP_FN(void, vp_append_ch, (string *a, char c)) { *a += c; } VP_END(void)
VP_FN(void, vp_fill, (string *out, size_t n, char c)) { new (out) string(string::fill(n, c)); } VP_END(void)

#ifdef ST_HAVE_CXX20_CHAR8_TYPES
// the const char8_t* overload family (thin forwards): checked against the same oracle as the const char* forms
#define C8(z) reinterpret_cast<const char8_t *>(z)
VP_FN(ST_ssize_t, vp_find_c8, (const string *s, size_t start, const char *z, int cs)) { return s->find(start, C8(z), (CS)cs); } VP_END(ST_ssize_t)
VP_FN(ST_ssize_t, vp_find0_c8, (const string *s, const char *z, int cs)) { return s->find(C8(z), (CS)cs); } VP_END(ST_ssize_t)
VP_FN(ST_ssize_t, vp_find_c8n, (const string *s, size_t start, const char *z, size_t n, int cs)) { return s->find(start, C8(z), n, (CS)cs); } VP_END(ST_ssize_t)
VP_FN(ST_ssize_t, vp_find_last_c8, (const string *s, size_t max, const char *z, int cs)) { return s->find_last(max, C8(z), (CS)cs); } VP_END(ST_ssize_t)
VP_FN(ST_ssize_t, vp_find_last0_c8, (const string *s, const char *z, int cs)) { return s->find_last(C8(z), (CS)cs); } VP_END(ST_ssize_t)
VP_FN(bool, vp_contains_c8, (const string *s, const char *z, int cs)) { return s->contains(C8(z), (CS)cs); } VP_END(bool)
VP_FN(bool, vp_starts_with_c8, (const string *s, const char *z, int cs)) { return s->starts_with(C8(z), (CS)cs); } VP_END(bool)
VP_FN(bool, vp_ends_with_c8, (const string *s, const char *z, int cs)) { return s->ends_with(C8(z), (CS)cs); } VP_END(bool)
VP_FN(int, vp_str_compare_c8, (const string *a, const char *z, int cs)) { return a->compare(C8(z), (CS)cs); } VP_END(int)
VP_FN(int, vp_str_compare_n_c8, (const string *a, const char *z, size_t n, int cs)) { return a->compare_n(C8(z), n, (CS)cs); } VP_END(int)
VP_FN(bool, vp_str_eq_c8, (const string *a, const char *z)) { return *a == C8(z); } VP_END(bool)
#endif

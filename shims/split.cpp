// shims/split.cpp -- split / tokenize (C09, C19).  Compiled with -fno-inline so that the std::vector<ST::string> members stay calls; the translator
// leaves them external (--stub=_ZNSt6vector) and the harness models the vector as a bounded sequence whose elements are built by the REAL string
// constructors below.  libstdc++'s own growth code is environment (measured: no verdict at 24 GB when encoded).
#include "vp_shim.h"
#include "st_string.h"
#include <vector>
using ST::string; typedef ST::case_sensitivity_t CS;
VP_FN(void, vp_split_ch, (std::vector<string> *out, const string *s, int c, size_t max, int cs)) { new (out) std::vector<string>(s->split((char)c, max, (CS)cs)); } VP_END(void)
VP_FN(void, vp_split_cstr, (std::vector<string> *out, const string *s, const char *z, size_t max, int cs)) { new (out) std::vector<string>(s->split(z, max, (CS)cs)); } VP_END(void)
VP_FN(void, vp_split_str, (std::vector<string> *out, const string *s, const string *sep, size_t max, int cs)) { new (out) std::vector<string>(s->split(*sep, max, (CS)cs)); } VP_END(void)
VP_FN(void, vp_tokenize, (std::vector<string> *out, const string *s, const char *delims)) { new (out) std::vector<string>(s->tokenize(delims)); } VP_END(void)
VP_FN(void, vp_vec_dtor, (std::vector<string> *v)) { v->~vector(); } VP_END(void)
// element constructors used by the vector model
VP_FN(void, vp_str_move_ctor, (string *out, string *s)) { new (out) string(std::move(*s)); } VP_END(void)
VP_FN(void, vp_str_copy_ctor, (string *out, const string *s)) { new (out) string(*s); } VP_END(void)
VP_FN(void, vp_str_ctor_ptr, (string *out, const char *p, size_t n, int v)) { new (out) string(p, n, (ST::utf_validation_t)v); } VP_END(void)
VP_FN(void, vp_str_dtor, (string *s)) { s->~string(); } VP_END(void)
VP_FN(void, vp_str_from_validated, (string *out, const char *p, size_t n)) { new (out) string(string::from_validated(p, n)); } VP_END(void)
// native-replay accessors of the real vector (under CBMC the harness reads its own sequence model instead)
VP_FN(size_t, vp_vec_size, (const std::vector<string> *v)) { return v->size(); } VP_END(size_t)
VP_FN(const string *, vp_vec_at, (const std::vector<string> *v, size_t i)) { return &(*v)[i]; } VP_END(const string *)

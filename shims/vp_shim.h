// vp_shim.h -- how shims export library entry points with a C ABI.
//   IR mode (default):   extern "C" noinline definitions; clang lowers them to LLVM IR for ir2c.
//   native mode (-DVP_NATIVE_REAL): the same bodies, each wrapped in a function-try-block that
//   records the escaping C++ exception in vp_exc_pending / vp_exc_kind, so that a C harness can
//   be linked against the real library for counterexample replay.
// A shim contains no logic of its own: it fixes template arguments and forwards.
#ifndef VP_SHIM_H
#define VP_SHIM_H
#include <new>
#include <utility>
#include <cstddef>
#include <cstdint>
#include <stdexcept>
#include "st_assert.h"

#ifdef VP_NATIVE_REAL
extern "C" { extern int vp_exc_pending; extern int vp_exc_kind; void vp_native_catch(void); }
#define VP_FN(ret, name, params) extern "C" ret name params try
template <class R> static inline R vp_default_value() { return R(); }
#define VP_END(ret) catch (...) { vp_native_catch(); return vp_default_value<ret>(); }
#else
#define VP_FN(ret, name, params) extern "C" __attribute__((noinline)) ret name params
#define VP_END(ret)
#endif

#endif

// shims/numeric.cpp -- integer / floating-point <-> text entry points (C12, C13).
#include "vp_shim.h"
#include "st_string.h"
#include "st_stringstream.h"
#include "st_format.h"
#include "log_writer.h"
using ST::string;

// digit generator: copies the result out of the formatter object (text() points into it)
#define UF_SHIM(SFX, T) VP_FN(size_t, vp_uint_format_##SFX, (char *out, size_t cap, unsigned long long v, int radix, bool upper)) { \
    ST::uint_formatter<T> f; f.format((T)v, radix, upper); size_t n = f.size(); \
    for (size_t i = 0; i < n && i < cap; ++i) out[i] = f.text()[i]; return n; } VP_END(size_t)
UF_SHIM(u8, unsigned char)
UF_SHIM(u16, unsigned short)
UF_SHIM(u32, unsigned int)
UF_SHIM(u64, unsigned long long)

#define FROM_S(SFX, T) VP_FN(void, vp_from_int_##SFX, (string *out, long long v, int base, bool upper)) { new (out) string(string::from_int((T)v, base, upper)); } VP_END(void)
#define FROM_U(SFX, T) VP_FN(void, vp_from_uint_##SFX, (string *out, unsigned long long v, int base, bool upper)) { new (out) string(string::from_uint((T)v, base, upper)); } VP_END(void)
FROM_S(short, short) FROM_S(int, int) FROM_S(long, long) FROM_S(llong, long long)
FROM_U(ushort, unsigned short) FROM_U(uint, unsigned int) FROM_U(ulong, unsigned long) FROM_U(ullong, unsigned long long)
VP_FN(void, vp_from_int_dflt, (string *out, int v)) { new (out) string(string::from_int(v)); } VP_END(void)

// string_stream inserters (decimal)
#define SS_SHIM(SFX, T) VP_FN(void, vp_ss_##SFX, (string *out, long long v)) { ST::string_stream ss; ss << (T)v; new (out) string(ss.to_string()); } VP_END(void)
SS_SHIM(int, int) SS_SHIM(uint, unsigned int) SS_SHIM(long, long) SS_SHIM(ulong, unsigned long) SS_SHIM(llong, long long) SS_SHIM(ullong, unsigned long long)
// ST::format("{}", v) / {x} / {o} / {b}
#define FMT_SHIM(SFX, T) VP_FN(void, vp_fmt_##SFX, (string *out, const char *fmt, long long v)) { new (out) string(ST::format(fmt, (T)v)); } VP_END(void)
FMT_SHIM(short, short) FMT_SHIM(int, int) FMT_SHIM(long, long) FMT_SHIM(llong, long long) FMT_SHIM(ushort, unsigned short) FMT_SHIM(uint, unsigned int) FMT_SHIM(ullong, unsigned long long)

// the renderer behind ST::format for one integer argument, with the sink observable (ST::format itself = this + string_stream, see C16/C17)
#define FTY_SHIM(SFX, T) VP_FN(void, vp_ftype_##SFX, (int digit_class, long long v)) { ST::format_spec spec; spec.digit_class = (ST::digit_class_t)digit_class; vp_log_writer w(""); ST::format_type(spec, w, (T)v); } VP_END(void)
FTY_SHIM(short, short) FTY_SHIM(int, int) FTY_SHIM(long, long) FTY_SHIM(llong, long long) FTY_SHIM(ushort, unsigned short) FTY_SHIM(uint, unsigned int) FTY_SHIM(ulong, unsigned long) FTY_SHIM(ullong, unsigned long long)

// parsers: flags are returned packed (bit0 ok, bit1 full_match)
#define TO_SHIM(NAME, RT) VP_FN(RT, vp_##NAME, (const string *s, int base, int *flags)) { ST::conversion_result r; RT v = s->NAME(r, base); *flags = (r.ok() ? 1 : 0) | (r.full_match() ? 2 : 0); return v; } VP_END(RT) \
  VP_FN(RT, vp_##NAME##_nr, (const string *s, int base)) { return s->NAME(base); } VP_END(RT)
TO_SHIM(to_short, short) TO_SHIM(to_ushort, unsigned short) TO_SHIM(to_int, int) TO_SHIM(to_uint, unsigned int)
TO_SHIM(to_long, long) TO_SHIM(to_ulong, unsigned long) TO_SHIM(to_long_long, long long) TO_SHIM(to_ulong_long, unsigned long long)
VP_FN(double, vp_to_double, (const string *s, int *flags)) { ST::conversion_result r; double v = s->to_double(r); *flags = (r.ok() ? 1 : 0) | (r.full_match() ? 2 : 0); return v; } VP_END(double)
VP_FN(float, vp_to_float, (const string *s, int *flags)) { ST::conversion_result r; float v = s->to_float(r); *flags = (r.ok() ? 1 : 0) | (r.full_match() ? 2 : 0); return v; } VP_END(float)
VP_FN(double, vp_to_double_nr, (const string *s)) { return s->to_double(); } VP_END(double)
VP_FN(float, vp_to_float_nr, (const string *s)) { return s->to_float(); } VP_END(float)

// floating point printers (C13)
VP_FN(void, vp_from_double, (string *out, double v, int format)) { new (out) string(string::from_double(v, (char)format)); } VP_END(void)
VP_FN(void, vp_from_float, (string *out, float v, int format)) { new (out) string(string::from_float(v, (char)format)); } VP_END(void)
VP_FN(void, vp_ss_double, (string *out, double v)) { ST::string_stream ss; ss << v; new (out) string(ss.to_string()); } VP_END(void)
VP_FN(void, vp_ss_float, (string *out, float v)) { ST::string_stream ss; ss << v; new (out) string(ss.to_string()); } VP_END(void)

VP_FN(void, vp_str_dtor, (string *s)) { s->~string(); } VP_END(void)
VP_FN(void, vp_str_from_validated, (string *out, const char *p, size_t n)) { new (out) string(string::from_validated(p, n)); } VP_END(void)

// shims/sinks.cpp -- the output sinks of the formatting driver (C17): string, FILE*, std::basic_ostream<char|wchar_t|char16_t|char32_t>, and stream
// insertion of ST::string.  Compiled with -fno-inline; libstdc++'s stream and basic_string members stay external (--stub) and are modelled by the
// harness as logs: the claim stops at the library's side of each call.
#include "vp_shim.h"
#include "st_format.h"
#include "st_stdio.h"
#include "st_iostream.h"
using ST::string;
#ifdef VP_NATIVE_REAL
// native replay of extraction from char16_t / char32_t streams: libstdc++ has no std::ctype<char16_t/char32_t>, so its own basic_string extraction cannot
// run on such a stream (bad_cast in the sentry).  The stream side is replaced by the same environment the solver sees -- "the extraction yields the token" --
// through explicit specialisations declared before ST's operator>> is instantiated; ST's operator>> itself is the real one.
static const void *vp_nat_token; static size_t vp_nat_token_n;
namespace std {
template <> basic_istream<char16_t> &operator>>(basic_istream<char16_t> &is, basic_string<char16_t> &s) { s.assign((const char16_t *)vp_nat_token, vp_nat_token_n); return is; }
template <> basic_istream<char32_t> &operator>>(basic_istream<char32_t> &is, basic_string<char32_t> &s) { s.assign((const char32_t *)vp_nat_token, vp_nat_token_n); return is; }
}
#endif
typedef std::char_traits<char> T8; typedef std::char_traits<wchar_t> TW; typedef std::char_traits<char16_t> T16; typedef std::char_traits<char32_t> T32;
VP_FN(void, vp_stdio_append, (FILE *f, const char *d, size_t n)) { _ST_PRIVATE::stdio_format_writer w("", f); w.append(d, n); } VP_END(void)
VP_FN(void, vp_stdio_append_char, (FILE *f, int ch, size_t count)) { _ST_PRIVATE::stdio_format_writer w("", f); w.append_char((char)ch, count); } VP_END(void)
#define OS_SHIMS(SFX, CT, TR) \
VP_FN(void, vp_os_append_##SFX, (std::basic_ostream<CT, TR> *os, const char *d, size_t n)) { _ST_PRIVATE::ostream_format_writer<CT, TR> w("", *os); w.append(d, n); } VP_END(void) \
VP_FN(void, vp_os_append_char_##SFX, (std::basic_ostream<CT, TR> *os, int ch, size_t count)) { _ST_PRIVATE::ostream_format_writer<CT, TR> w("", *os); w.append_char((char)ch, count); } VP_END(void) \
VP_FN(void, vp_os_insert_##SFX, (std::basic_ostream<CT, TR> *os, const string *s)) { *os << *s; } VP_END(void) \
VP_FN(void, vp_is_extract_##SFX, (std::basic_istream<CT, TR> *is, string *s)) { *is >> *s; } VP_END(void)
OS_SHIMS(c8, char, T8)
OS_SHIMS(wc, wchar_t, TW)
OS_SHIMS(c16, char16_t, T16)
OS_SHIMS(c32, char32_t, T32)
// the entry points themselves (glue: writer construction + apply_format + flush), one argument
VP_FN(void, vp_printf_1, (FILE *f, const char *fmt, const char *a)) { ST::printf(f, fmt, a); } VP_END(void)
VP_FN(void, vp_writef_1_c8, (std::basic_ostream<char, T8> *os, const char *fmt, const char *a)) { ST::writef(*os, fmt, a); } VP_END(void)
VP_FN(void, vp_writef_1_c16, (std::basic_ostream<char16_t, T16> *os, const char *fmt, const char *a)) { ST::writef(*os, fmt, a); } VP_END(void)
VP_FN(void, vp_format_1, (string *out, const char *fmt, const char *a)) { new (out) string(ST::format(fmt, a)); } VP_END(void)
VP_FN(void, vp_format_latin_1_1, (string *out, const char *fmt, const char *a)) { new (out) string(ST::format_latin_1(fmt, a)); } VP_END(void)
VP_FN(void, vp_strsink, (string *out, const char *d, size_t n, int ch, size_t count, bool utf8)) {
    _ST_PRIVATE::string_format_writer w(""); w.append(d, n); w.append_char((char)ch, count); new (out) string(w.to_string(utf8, ST::assume_valid)); } VP_END(void)
VP_FN(void, vp_str_dtor, (string *s)) { s->~string(); } VP_END(void)
VP_FN(void, vp_str_from_validated, (string *out, const char *p, size_t n)) { new (out) string(string::from_validated(p, n)); } VP_END(void)

#ifdef VP_NATIVE_REAL
// ---- native replay: the same sink calls against REAL streams; returns the units the stream received (the CBMC side reads the harness's log models instead)
#include <sstream>
#include <cstdio>
template <class CT, class TR> static size_t nat_os(const char *d, size_t n, int ch, size_t count, const string *ins, CT *out, size_t cap) {
    std::basic_ostringstream<CT, TR> os;
    if (ins) os << *ins;
    else { _ST_PRIVATE::ostream_format_writer<CT, TR> w("", os); w.append(d, n); w.append_char((char)ch, count); }
    std::basic_string<CT, TR> s = os.str();
    for (size_t i = 0; i < s.size() && i < cap; ++i) out[i] = s[i];
    return s.size();
}
VP_FN(size_t, vp_nat_sink_c8, (const char *d, size_t n, int ch, size_t count, const string *ins, char *out, size_t cap)) { return nat_os<char, T8>(d, n, ch, count, ins, out, cap); } VP_END(size_t)
VP_FN(size_t, vp_nat_sink_wc, (const char *d, size_t n, int ch, size_t count, const string *ins, wchar_t *out, size_t cap)) { return nat_os<wchar_t, TW>(d, n, ch, count, ins, out, cap); } VP_END(size_t)
VP_FN(size_t, vp_nat_sink_c16, (const char *d, size_t n, int ch, size_t count, const string *ins, char16_t *out, size_t cap)) { return nat_os<char16_t, T16>(d, n, ch, count, ins, out, cap); } VP_END(size_t)
VP_FN(size_t, vp_nat_sink_c32, (const char *d, size_t n, int ch, size_t count, const string *ins, char32_t *out, size_t cap)) { return nat_os<char32_t, T32>(d, n, ch, count, ins, out, cap); } VP_END(size_t)
// extraction: a real istringstream holding the token (char, wchar_t); token-yielding stream side (see the top of this file) for char16_t / char32_t
template <class CT, class TR> static void nat_extract(const CT *tok, size_t n, string *out) { std::basic_istringstream<CT, TR> is(std::basic_string<CT, TR>(tok, n)); is >> *out; }
template <class CT, class TR> static void nat_extract_nofacet(const CT *tok, size_t n, string *out) { std::basic_istream<CT, TR> is(nullptr); vp_nat_token = tok; vp_nat_token_n = n; is >> *out; }
VP_FN(void, vp_nat_extract_c8, (const char *t, size_t n, string *out)) { nat_extract<char, T8>(t, n, out); } VP_END(void)
VP_FN(void, vp_nat_extract_wc, (const wchar_t *t, size_t n, string *out)) { nat_extract<wchar_t, TW>(t, n, out); } VP_END(void)
VP_FN(void, vp_nat_extract_c16, (const char16_t *t, size_t n, string *out)) { nat_extract_nofacet<char16_t, T16>(t, n, out); } VP_END(void)
VP_FN(void, vp_nat_extract_c32, (const char32_t *t, size_t n, string *out)) { nat_extract_nofacet<char32_t, T32>(t, n, out); } VP_END(void)
VP_FN(size_t, vp_nat_entry_stdio, (const char *fmt, const char *a, char *out, size_t cap)) {
    char *mem = nullptr; size_t msz = 0; FILE *f = open_memstream(&mem, &msz); ST::printf(f, fmt, a); fclose(f);
    for (size_t i = 0; i < msz && i < cap; ++i) out[i] = mem[i]; free(mem); return msz; } VP_END(size_t)
VP_FN(size_t, vp_nat_entry_c8, (const char *fmt, const char *a, char *out, size_t cap)) {
    std::ostringstream os; ST::writef(os, fmt, a); std::string s = os.str(); for (size_t i = 0; i < s.size() && i < cap; ++i) out[i] = s[i]; return s.size(); } VP_END(size_t)
VP_FN(size_t, vp_nat_entry_c16, (const char *fmt, const char *a, char16_t *out, size_t cap)) {
    std::basic_ostringstream<char16_t, T16> os; ST::writef(os, fmt, a); std::u16string s = os.str(); for (size_t i = 0; i < s.size() && i < cap; ++i) out[i] = s[i]; return s.size(); } VP_END(size_t)
VP_FN(size_t, vp_nat_sink_stdio, (const char *d, size_t n, int ch, size_t count, char *out, size_t cap)) {
    char *mem = nullptr; size_t msz = 0; FILE *f = open_memstream(&mem, &msz);
    { _ST_PRIVATE::stdio_format_writer w("", f); w.append(d, n); w.append_char((char)ch, count); }
    fclose(f); for (size_t i = 0; i < msz && i < cap; ++i) out[i] = mem[i]; free(mem); return msz; } VP_END(size_t)
#endif

// shims/utf.cpp -- UTF/Latin-1 conversion entry points (C01, C02, C03): the public free functions of
// st_utf_conv.h, the validator/repairer, and the per-character kernels.
#include "vp_shim.h"
#include "st_utf_conv.h"

typedef ST::utf_validation_t V;

// ---- the 12 source/target pairs, pointer+length form (allocating wrapper: measure, allocate, convert, raise)
VP_FN(void, vp_conv_u8_u16, (ST::utf16_buffer *out, const char *p, size_t n, int mode)) { new (out) ST::utf16_buffer(ST::utf8_to_utf16(p, n, (V)mode)); } VP_END(void)
VP_FN(void, vp_conv_u8_u32, (ST::utf32_buffer *out, const char *p, size_t n, int mode)) { new (out) ST::utf32_buffer(ST::utf8_to_utf32(p, n, (V)mode)); } VP_END(void)
VP_FN(void, vp_conv_u8_l1, (ST::char_buffer *out, const char *p, size_t n, int mode, bool subst)) { new (out) ST::char_buffer(ST::utf8_to_latin_1(p, n, (V)mode, subst)); } VP_END(void)
VP_FN(void, vp_conv_u16_u8, (ST::char_buffer *out, const char16_t *p, size_t n, int mode)) { new (out) ST::char_buffer(ST::utf16_to_utf8(p, n, (V)mode)); } VP_END(void)
VP_FN(void, vp_conv_u16_u32, (ST::utf32_buffer *out, const char16_t *p, size_t n, int mode)) { new (out) ST::utf32_buffer(ST::utf16_to_utf32(p, n, (V)mode)); } VP_END(void)
VP_FN(void, vp_conv_u16_l1, (ST::char_buffer *out, const char16_t *p, size_t n, int mode, bool subst)) { new (out) ST::char_buffer(ST::utf16_to_latin_1(p, n, (V)mode, subst)); } VP_END(void)
VP_FN(void, vp_conv_u32_u8, (ST::char_buffer *out, const char32_t *p, size_t n, int mode)) { new (out) ST::char_buffer(ST::utf32_to_utf8(p, n, (V)mode)); } VP_END(void)
VP_FN(void, vp_conv_u32_u16, (ST::utf16_buffer *out, const char32_t *p, size_t n, int mode)) { new (out) ST::utf16_buffer(ST::utf32_to_utf16(p, n, (V)mode)); } VP_END(void)
VP_FN(void, vp_conv_u32_l1, (ST::char_buffer *out, const char32_t *p, size_t n, int mode, bool subst)) { new (out) ST::char_buffer(ST::utf32_to_latin_1(p, n, (V)mode, subst)); } VP_END(void)
VP_FN(void, vp_conv_l1_u8, (ST::char_buffer *out, const char *p, size_t n)) { new (out) ST::char_buffer(ST::latin_1_to_utf8(p, n)); } VP_END(void)
VP_FN(void, vp_conv_l1_u16, (ST::utf16_buffer *out, const char *p, size_t n)) { new (out) ST::utf16_buffer(ST::latin_1_to_utf16(p, n)); } VP_END(void)
VP_FN(void, vp_conv_l1_u32, (ST::utf32_buffer *out, const char *p, size_t n)) { new (out) ST::utf32_buffer(ST::latin_1_to_utf32(p, n)); } VP_END(void)

// ---- wchar_t aliases: the platform instantiation (4-byte wchar_t) and, explicitly, the 2-byte one
VP_FN(void, vp_conv_u8_wc, (ST::wchar_buffer *out, const char *p, size_t n, int mode)) { new (out) ST::wchar_buffer(ST::utf8_to_wchar(p, n, (V)mode)); } VP_END(void)
VP_FN(void, vp_conv_wc_u8, (ST::char_buffer *out, const wchar_t *p, size_t n, int mode)) { new (out) ST::char_buffer(ST::wchar_to_utf8(p, n, (V)mode)); } VP_END(void)
VP_FN(void, vp_conv_u16_wc, (ST::wchar_buffer *out, const char16_t *p, size_t n, int mode)) { new (out) ST::wchar_buffer(ST::utf16_to_wchar(p, n, (V)mode)); } VP_END(void)
VP_FN(void, vp_conv_wc_u16, (ST::utf16_buffer *out, const wchar_t *p, size_t n, int mode)) { new (out) ST::utf16_buffer(ST::wchar_to_utf16(p, n, (V)mode)); } VP_END(void)
VP_FN(void, vp_conv_u32_wc, (ST::wchar_buffer *out, const char32_t *p, size_t n, int mode)) { new (out) ST::wchar_buffer(ST::utf32_to_wchar(p, n, (V)mode)); } VP_END(void)
VP_FN(void, vp_conv_wc_u32, (ST::utf32_buffer *out, const wchar_t *p, size_t n, int mode)) { new (out) ST::utf32_buffer(ST::wchar_to_utf32(p, n, (V)mode)); } VP_END(void)
VP_FN(void, vp_conv_l1_wc, (ST::wchar_buffer *out, const char *p, size_t n)) { new (out) ST::wchar_buffer(ST::latin_1_to_wchar(p, n)); } VP_END(void)
VP_FN(void, vp_conv_wc_l1, (ST::char_buffer *out, const wchar_t *p, size_t n, int mode, bool subst)) { new (out) ST::char_buffer(ST::wchar_to_latin_1(p, n, (V)mode, subst)); } VP_END(void)

// ---- buffer-argument and default-mode overloads (must agree with the pointer+length form)
VP_FN(void, vp_conv_u8_u16_buf, (ST::utf16_buffer *out, const ST::char_buffer *b, int mode)) { new (out) ST::utf16_buffer(ST::utf8_to_utf16(*b, (V)mode)); } VP_END(void)
VP_FN(void, vp_conv_u16_u8_buf, (ST::char_buffer *out, const ST::utf16_buffer *b, int mode)) { new (out) ST::char_buffer(ST::utf16_to_utf8(*b, (V)mode)); } VP_END(void)
VP_FN(void, vp_conv_u32_u8_buf, (ST::char_buffer *out, const ST::utf32_buffer *b, int mode)) { new (out) ST::char_buffer(ST::utf32_to_utf8(*b, (V)mode)); } VP_END(void)
VP_FN(void, vp_conv_u8_u16_dflt, (ST::utf16_buffer *out, const char *p, size_t n)) { new (out) ST::utf16_buffer(ST::utf8_to_utf16(p, n)); } VP_END(void)
VP_FN(void, vp_conv_u16_u8_dflt, (ST::char_buffer *out, const char16_t *p, size_t n)) { new (out) ST::char_buffer(ST::utf16_to_utf8(p, n)); } VP_END(void)
VP_FN(void, vp_conv_u32_u8_dflt, (ST::char_buffer *out, const char32_t *p, size_t n)) { new (out) ST::char_buffer(ST::utf32_to_utf8(p, n)); } VP_END(void)
VP_FN(void, vp_conv_u8_l1_dflt, (ST::char_buffer *out, const char *p, size_t n)) { new (out) ST::char_buffer(ST::utf8_to_latin_1(p, n)); } VP_END(void)
VP_FN(int, vp_default_validation, (void)) { return (int)ST_DEFAULT_VALIDATION; } VP_END(int)

// ---- validator and repairer used by ST::string
VP_FN(int, vp_validate_utf8, (const char *p, size_t n)) { return (int)_ST_PRIVATE::validate_utf8(p, n); } VP_END(int)
VP_FN(size_t, vp_cleanup_utf8, (char *out, const char *p, size_t n)) { return _ST_PRIVATE::cleanup_utf8(out, p, n); } VP_END(size_t)
VP_FN(void, vp_cleanup_utf8_buffer, (ST::char_buffer *out, const ST::char_buffer *b)) { new (out) ST::char_buffer(_ST_PRIVATE::cleanup_utf8_buffer(*b)); } VP_END(void)

// ---- per-character kernels
VP_FN(uint32_t, vp_extract_utf8, (const unsigned char *p, size_t avail, size_t *adv)) {
    const unsigned char *cp = p; char32_t c = _ST_PRIVATE::extract_utf8(cp, p + avail); *adv = cp - p; return c; } VP_END(uint32_t)
VP_FN(uint32_t, vp_extract_utf16, (const char16_t *p, size_t avail, size_t *adv)) {
    const char16_t *cp = p; char32_t c = _ST_PRIVATE::extract_utf16(cp, p + avail); *adv = cp - p; return c; } VP_END(uint32_t)
VP_FN(int, vp_write_utf8, (char *dest, uint32_t c, size_t *len)) { char *d = dest; int e = (int)_ST_PRIVATE::write_utf8(d, c); *len = d - dest; return e; } VP_END(int)
VP_FN(int, vp_write_utf16, (char16_t *dest, uint32_t c, size_t *len)) { char16_t *d = dest; int e = (int)_ST_PRIVATE::write_utf16(d, c); *len = d - dest; return e; } VP_END(int)
VP_FN(size_t, vp_utf8_measure, (uint32_t c)) { return _ST_PRIVATE::utf8_measure(c); } VP_END(size_t)
VP_FN(size_t, vp_utf16_measure, (uint32_t c)) { return _ST_PRIVATE::utf16_measure(c); } VP_END(size_t)

// destructors used by harnesses to release results with the real code
VP_FN(void, vp_dtor_c8, (ST::char_buffer *b)) { b->~buffer(); } VP_END(void)
VP_FN(void, vp_dtor_c16, (ST::utf16_buffer *b)) { b->~buffer(); } VP_END(void)
VP_FN(void, vp_dtor_c32, (ST::utf32_buffer *b)) { b->~buffer(); } VP_END(void)
VP_FN(void, vp_dtor_wc, (ST::wchar_buffer *b)) { b->~buffer(); } VP_END(void)

// shims/codecs.cpp -- hex / base64 entry points (C14, C15, C18, C19).
#include "vp_shim.h"
#include "st_codecs.h"
using ST::string;
VP_FN(void, vp_hex_encode, (string *out, const void *data, size_t n)) { new (out) string(ST::hex_encode(data, n)); } VP_END(void)
VP_FN(void, vp_hex_encode_buf, (string *out, const ST::char_buffer *b)) { new (out) string(ST::hex_encode(*b)); } VP_END(void)
VP_FN(ST_ssize_t, vp_hex_decode_to, (const string *s, void *out, size_t outsz)) { return ST::hex_decode(*s, out, outsz); } VP_END(ST_ssize_t)
VP_FN(void, vp_hex_decode, (ST::char_buffer *out, const string *s)) { new (out) ST::char_buffer(ST::hex_decode(*s)); } VP_END(void)
VP_FN(void, vp_b64_encode, (string *out, const void *data, size_t n)) { new (out) string(ST::base64_encode(data, n)); } VP_END(void)
VP_FN(void, vp_b64_encode_buf, (string *out, const ST::char_buffer *b)) { new (out) string(ST::base64_encode(*b)); } VP_END(void)
VP_FN(ST_ssize_t, vp_b64_decode_to, (const string *s, void *out, size_t outsz)) { return ST::base64_decode(*s, out, outsz); } VP_END(ST_ssize_t)
VP_FN(void, vp_b64_decode, (ST::char_buffer *out, const string *s)) { new (out) ST::char_buffer(ST::base64_decode(*s)); } VP_END(void)
VP_FN(size_t, vp_b64_encode_size, (size_t n)) { return _ST_PRIVATE::b64_encode_size(n); } VP_END(size_t)
VP_FN(void, vp_str_dtor, (string *s)) { s->~string(); } VP_END(void)
VP_FN(void, vp_buf_dtor, (ST::char_buffer *b)) { b->~buffer(); } VP_END(void)
VP_FN(void, vp_str_from_validated, (string *out, const char *p, size_t n)) { new (out) string(string::from_validated(p, n)); } VP_END(void)

// log_writer.h -- the logging sink shared by the formatting shims: a `final` format_writer that forwards to two C functions of the harness.
#ifndef VP_LOG_WRITER_H
#define VP_LOG_WRITER_H
#include "st_formatter.h"
extern "C" {
void vp_sink_append(const char *data, size_t size);
void vp_sink_append_char(char ch, size_t count);
void vp_sink_spec(const ST::format_spec *spec);
}

struct vp_log_writer final : public ST::format_writer {
    explicit vp_log_writer(const char *f) : ST::format_writer(f) {}
    ST::format_writer &append(const char *data, size_t size) override { vp_sink_append(data, size); return *this; }
    ST::format_writer &append_char(char ch, size_t count = 1) override { vp_sink_append_char(ch, count); return *this; }
};

#endif

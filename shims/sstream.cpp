// shims/sstream.cpp -- ST::string_stream entry points (C16, C18, C19).
#include "vp_shim.h"
#include "st_stringstream.h"
#include "st_string.h"
using ST::string; using ST::string_stream;
VP_FN(void, vp_ss_ctor, (string_stream *s)) { new (s) string_stream(); } VP_END(void)
VP_FN(void, vp_ss_dtor, (string_stream *s)) { s->~string_stream(); } VP_END(void)
VP_FN(void, vp_ss_move_ctor, (string_stream *out, string_stream *s)) { new (out) string_stream(std::move(*s)); } VP_END(void)
VP_FN(void, vp_ss_move_assign, (string_stream *a, string_stream *b)) { *a = std::move(*b); } VP_END(void)
VP_FN(void, vp_ss_append, (string_stream *s, const char *p, size_t n)) { s->append(p, n); } VP_END(void)
VP_FN(void, vp_ss_append_auto, (string_stream *s, const char *z)) { s->append(z); } VP_END(void)
VP_FN(void, vp_ss_append_char, (string_stream *s, int ch, size_t n)) { s->append_char((char)ch, n); } VP_END(void)
VP_FN(void, vp_ss_append_char1, (string_stream *s, int ch)) { s->append_char((char)ch); } VP_END(void)
VP_FN(void, vp_ss_truncate, (string_stream *s, size_t n)) { s->truncate(n); } VP_END(void)
VP_FN(void, vp_ss_truncate0, (string_stream *s)) { s->truncate(); } VP_END(void)
VP_FN(void, vp_ss_erase, (string_stream *s, size_t n)) { s->erase(n); } VP_END(void)
VP_FN(void, vp_ss_to_string, (string *out, const string_stream *s, bool utf8, int v)) { new (out) string(s->to_string(utf8, (ST::utf_validation_t)v)); } VP_END(void)
VP_FN(void, vp_ss_to_string_dflt, (string *out, const string_stream *s)) { new (out) string(s->to_string()); } VP_END(void)
VP_FN(size_t, vp_ss_size, (const string_stream *s)) { return s->size(); } VP_END(size_t)
VP_FN(const char *, vp_ss_raw, (const string_stream *s)) { return s->raw_buffer(); } VP_END(const char *)
// operator<< overload set
VP_FN(void, vp_ss_ins_cstr, (string_stream *s, const char *z)) { *s << z; } VP_END(void)
VP_FN(void, vp_ss_ins_str, (string_stream *s, const string *t)) { *s << *t; } VP_END(void)
VP_FN(void, vp_ss_ins_char, (string_stream *s, int c)) { *s << (char)c; } VP_END(void)
VP_FN(void, vp_ss_ins_u16, (string_stream *s, const char16_t *z)) { *s << z; } VP_END(void)
VP_FN(void, vp_ss_ins_u32, (string_stream *s, const char32_t *z)) { *s << z; } VP_END(void)
VP_FN(void, vp_ss_ins_wc, (string_stream *s, const wchar_t *z)) { *s << z; } VP_END(void)
VP_FN(void, vp_ss_ins_int, (string_stream *s, long long v)) { *s << (int)v; } VP_END(void)
VP_FN(void, vp_ss_ins_uint, (string_stream *s, unsigned long long v)) { *s << (unsigned int)v; } VP_END(void)
VP_FN(void, vp_ss_ins_llong, (string_stream *s, long long v)) { *s << v; } VP_END(void)
VP_FN(void, vp_ss_ins_double, (string_stream *s, double v)) { *s << v; } VP_END(void)
// the remaining text inserters: wchar_t*, char8_t*, and the STL wide strings / views
VP_FN(void, vp_ss_ins_c8z, (string_stream *s, const char *z)) { *s << reinterpret_cast<const char8_t *>(z); } VP_END(void)
#if defined(ST_ENABLE_STL_STRINGS)
VP_FN(void, vp_ss_ins_u16sv, (string_stream *s, const char16_t *p, size_t n)) { *s << std::u16string_view(p, n); } VP_END(void)
VP_FN(void, vp_ss_ins_u16str, (string_stream *s, const char16_t *p, size_t n)) { std::u16string t(p, n); *s << t; } VP_END(void)
VP_FN(void, vp_ss_ins_u32sv, (string_stream *s, const char32_t *p, size_t n)) { *s << std::u32string_view(p, n); } VP_END(void)
VP_FN(void, vp_ss_ins_u32str, (string_stream *s, const char32_t *p, size_t n)) { std::u32string t(p, n); *s << t; } VP_END(void)
VP_FN(void, vp_ss_ins_wsv, (string_stream *s, const wchar_t *p, size_t n)) { *s << std::wstring_view(p, n); } VP_END(void)
VP_FN(void, vp_ss_ins_wstr, (string_stream *s, const wchar_t *p, size_t n)) { std::wstring t(p, n); *s << t; } VP_END(void)
VP_FN(void, vp_ss_ins_u8sv, (string_stream *s, const char *p, size_t n)) { *s << std::u8string_view(reinterpret_cast<const char8_t *>(p), n); } VP_END(void)
#endif
#if defined(ST_ENABLE_STL_STRINGS)
VP_FN(void, vp_ss_ins_stdstring, (string_stream *s, const char *p, size_t n)) { std::string t(p, n); *s << t; } VP_END(void)
VP_FN(void, vp_ss_ins_sv, (string_stream *s, const char *p, size_t n)) { *s << std::string_view(p, n); } VP_END(void)
#endif
VP_FN(void, vp_str_dtor, (string *s)) { s->~string(); } VP_END(void)
VP_FN(void, vp_str_from_validated, (string *out, const char *p, size_t n)) { new (out) string(string::from_validated(p, n)); } VP_END(void)

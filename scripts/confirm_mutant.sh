#!/bin/sh
# usage: confirm_mutant.sh <worktree> <A|B>   -- independently confirms a seeded change produced by a sub-agent:
#   (1) demo passes on the clean tree, (2) with the change the library builds and all 112 tests pass, (3) demo fails with the change.
# Writes <worktree>/out/confirm<A|B>.txt ; leaves the worktree clean and removes build output.
WT=$1; M=$2; OUT=$WT/out/confirm$M.txt
cd "$WT" || exit 9
git checkout -q -- include
B=$WT/_cb; rm -rf "$B"
CM="cmake -S $WT -B $B -G Ninja -DCMAKE_BUILD_TYPE=RelWithDebInfo -DCMAKE_POLICY_VERSION_MINIMUM=3.5 -DFETCHCONTENT_TRY_FIND_PACKAGE_MODE=ALWAYS -DFETCHCONTENT_UPDATES_DISCONNECTED=ON -DFETCHCONTENT_SOURCE_DIR_GOOGLETEST=/usr/src/googletest -DFETCHCONTENT_SOURCE_DIR_GTEST=/usr/src/googletest -DCMAKE_CXX_FLAGS=-Wno-error"
{
echo "== $(date -u) worktree=$WT change=$M"
$CM > $B.conf.log 2>&1 || { echo "CONFIGURE FAILED"; exit 1; }
CFG=$(dirname $(find $B -name st_config.h | head -1))
DEMO="g++ -std=c++20 -g -O1 -fsanitize=address,undefined -fno-sanitize-recover=undefined -pthread -I$WT/include -I$CFG $WT/out/demo$M.cpp -o $B/demo$M"
$DEMO > $B/demo_build.log 2>&1 || { echo "demo does not build on clean tree"; tail -5 $B/demo_build.log; }
( cd $B && timeout 300 ./demo$M > demo_clean.log 2>&1 ); echo "demo on clean tree: exit=$?"
git apply $WT/out/mut$M.diff || { echo "PATCH DOES NOT APPLY"; exit 1; }
cmake --build $B -j6 > $B/build.log 2>&1 || { echo "BUILD WITH CHANGE FAILED"; tail -20 $B/build.log; }
( cd $B && timeout 600 ./test/st_gtests > tests.log 2>&1; echo "test suite with change: exit=$?"; tail -3 tests.log )
$DEMO > $B/demo_build2.log 2>&1 || { echo "demo does not build with change"; }
( cd $B && timeout 300 ./demo$M > demo_mut.log 2>&1 ); echo "demo with change: exit=$?"
tail -5 $B/demo_mut.log
} > "$OUT" 2>&1
git checkout -q -- include; rm -rf "$B" "$B.conf.log" "$WT/st_test.out"
cat "$OUT"

#!/usr/bin/env python3
"""Imports the sub-agent produced, independently confirmed changes from the scratch worktrees into /verif/seeded/<prop>-<A|B>/."""
import os, json, shutil, re, sys
NEEDS = {
 'C01-A': 'the single scalar U+0800 (2/3-byte UTF-8 width boundary) in UTF-16/32/wchar_t input', 'C01-B': 'substitute_invalid + a 4-byte character as the LAST character through the ST::string UTF-8 entry points',
 'C02-A': 'a lead byte followed by another lead byte (>= 0xC0) where a continuation byte is required', 'C02-B': 'a high surrogate immediately followed by a BMP unit in E000..FFFF',
 'C03-A': 'U+0800 in UTF-16/32 input (measure pass one byte short => overrun)', 'C03-B': 'a low surrogate as the LAST unit of an exactly-sized UTF-16 input (read past the end)',
 'C04-A': 'move-assign into a short target, then modify the target and re-read the moved-from source', 'C04-B': 'copy-assign a short value over a heap-backed one, then read',
 'C05-A': 'allocate(n >= limit) followed by allocate(m < limit) on the same buffer', 'C05-B': 'copy-assign a shorter short value over a short value (stale byte where the terminator should be)',
 'C06-A': 'operands differing only in bit 0x20 of a non-letter byte under case-insensitive compare', 'C06-B': 'first difference between a byte >= 0x80 and one < 0x80',
 'C07-A': 'self-overlapping needle whose occurrence starts inside a failed partial match ("aab" in "aaab")', 'C07-B': 'start position within needle-length of SIZE_MAX through the (pointer,length)/ST::string overloads',
 'C08-A': 'substr count with the top bit set (other than ST_AUTO_SIZE)', 'C08-B': 'after_last(ST::string) with a separator containing an embedded NUL',
 'C09-A': 'replace with a self-overlapping pattern occurring overlapped and |to| != |from|', 'C09-B': 'tokenize on a subject containing an embedded NUL',
 'C10-A': 'a format string cut right after the pad introducer "{_" (reads past the NUL)', 'C10-B': 'a width >= 2^31 on a string/bool argument',
 'C11-A': 'value 0 with # and radix x/X/b/o and width >= 2', 'C11-B': 'precision exactly .0 on a non-empty string/bool',
 'C12-A': 'LLONG_MIN streamed with static type long long (signed negation: UB)', 'C12-B': 'to_long on text with an embedded NUL where strtol stops',
 'C13-A': 'a rendering of exactly 64 characters (e.g. {.62f} of 1.0)', 'C13-B': 'from_double(v <= -1e308, \'f\') / from_float(<= -1e38f): rendering one byte longer than the shrunk buffer',
 'C14-A': 'input length 1 mod 3 (reads one byte past the input for the second character)', 'C14-B': 'length 0 mod 3 and a last byte with bit 6 set',
 'C15-A': 'output_size == SIZE_MAX with a length not a multiple of 4 (>= 5)', 'C15-B': 'null output with an odd-length hex string',
 'C16-A': 'a failing allocation during growth, then further appends', 'C16-B': 'move assignment between streams in different storage modes',
 'C17-A': 'a padding count that is a non-zero multiple of 16 on the FILE* sink', 'C17-B': 'stream insertion of a string with an embedded NUL',
 'C18-A': 'operator<<(const char16_t*) with a lone surrogate (size committed before the error is raised)', 'C18-B': 'assignment from malformed raw UTF-8 of >= 16 bytes to a non-empty target',
 'C19-A': 'copy-assign heap <- heap with the single allocation failing', 'C19-B': 'a failing growth allocation in string_stream, then destroy/append',
 'C20-A': '>= 64-character float renderings formatted by two threads at once (function-local static buffer)', 'C20-B': 'const c_str() writing the terminator of a shared heap-backed string (data race, value unchanged)',
}
V = '/verif/seeded'
for i in range(1, 21):
    pid = 'C%02d' % i; wt = '/tmp/wt-' + pid
    for m in 'AB':
        src = os.path.join(wt, 'out')
        if not os.path.exists(os.path.join(src, 'mut%s.diff' % m)): print('missing', pid, m); continue
        d = os.path.join(V, '%s-%s' % (pid, m)); os.makedirs(d, exist_ok=True)
        shutil.copy(os.path.join(src, 'mut%s.diff' % m), os.path.join(d, 'patch.diff'))
        shutil.copy(os.path.join(src, 'demo%s.cpp' % m), os.path.join(d, 'demo.cpp'))
        conf = open(os.path.join(src, 'confirm%s.txt' % m), errors='replace').read()
        open(os.path.join(d, 'confirm.txt'), 'w').write(conf)
        if os.path.exists(os.path.join(src, 'NOTES.md')): shutil.copy(os.path.join(src, 'NOTES.md'), os.path.join(d, 'NOTES.agent.md'))
        ex = re.findall(r'(demo on clean tree|test suite with change|demo with change)[^:]*: exit=(\d+)', conf)
        meta = {'property': pid, 'id': '%s-%s' % (pid, m), 'origin': 'fresh sub-agent given only the property text and a scratch worktree (nothing from /verif)',
                'needs_to_manifest': NEEDS.get('%s-%s' % (pid, m), ''),
                'confirmed_by': 'scripts/confirm_mutant.sh in a scratch worktree: demo exits 0 on the clean tree; with the change the library builds and all 112 tests pass; the demo then fails',
                'confirmation': {k: int(v) for k, v in ex}, 'passes_existing_tests': True,
                'how_to_run_checks': 'scripts/try_mutant.sh seeded/%s-%s/patch.diff %s --tier quick' % (pid, m, pid)}
        json.dump(meta, open(os.path.join(d, 'meta.json'), 'w'), indent=1)
print('done')

#!/bin/sh
# usage: try_mutant.sh <patch.diff> <PID> [extra vp args]   -- applies the patch to /repo, runs the check, always reverts
P=$1; PID=$2; shift 2
cd /repo && git apply "$P" || { echo "patch does not apply"; exit 9; }
trap 'git -C /repo checkout -- . ' EXIT INT TERM
cd /verif && VP_EVIDENCE_DIR=/var/tmp/vp_mut_evidence ./vp check "$PID" "$@"
echo "exit=$?"

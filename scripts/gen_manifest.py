#!/usr/bin/env python3
"""Regenerates /verif/MANIFEST.json from props/*.py (claimed) and props/NOT_APPLICABLE.json."""
import os, sys, json, importlib.util
V = os.path.dirname(os.path.dirname(os.path.abspath(__file__)))
sys.path.insert(0, os.path.join(V, 'engine'))
import vpdriver
ids = [json.loads(l)['id'] for l in open(os.path.join(V, 'properties.jsonl'))]
checks = []; na = []
na_file = os.path.join(V, 'props', 'NOT_APPLICABLE.json')
na_map = json.load(open(na_file)) if os.path.exists(na_file) else {}
for pid in ids:
    p = os.path.join(V, 'props', pid + '.py')
    if not os.path.exists(p) or pid in na_map:
        na.append({'property_id': pid, 'reason': na_map.get(pid, 'no check built yet')}); continue
    m = vpdriver.load_prop(pid)
    checks.append({
        'property_id': pid,
        'quick_cmd': './vp check %s --tier quick' % pid,
        'thorough_cmd': './vp check %s --tier thorough' % pid,
        'evidence_file': '/verif/evidence/%s.json' % pid,
        'replay_cmd_template': './vp replay {path}',
        'engine': 'ir2c+cbmc',
        'level_claimed': {'category': getattr(m, 'LEVEL', 'model_checking'), 'text': getattr(m, 'LEVEL_TEXT', m.EXPLANATION), 'design_ref': 'DESIGN.md section 3, ' + pid},
        'level_note': getattr(m, 'LEVEL_NOTE', 'Bounded: holds for every input inside the stated bound (evidence.coverage.bounds); trusted base: clang-14 IR generation, the ir2c translator (validated by replay of witness/counterexample traces against the g++ build), CBMC 6.11 and its SAT back end, the environment models listed in evidence.assumptions.'),
        'technique': getattr(m, 'TECHNIQUE', 'bounded symbolic execution of the real code (clang LLVM IR -> C -> CBMC/SAT), counterexamples replayed natively'),
    })
man = {
    'version': 1,
    'setup_cmd': 'python3 -m py_compile engine/ir2c.py engine/vpdriver.py && cbmc --version && clang++-14 --version | head -1',
    'hooks': {'guard': 'ST_VERIF_HOOKS', 'enable': 'no hooks are needed: checks compile /repo/include unmodified (ST_ASSERT failures are recognised in the IR)', 'baseline_off_cmd': '/verif/scripts/baseline.sh', 'source_commits': [], 'add_only': True},
    'engines': [{'name': 'ir2c+cbmc', 'path': '/verif/engine', 'serves_properties': [c['property_id'] for c in checks],
                 'kind_free_text': 'clang++-14 -O1 LLVM IR of thin extern-C shims over the real headers -> own IR-to-C translator (engine/ir2c.py) -> CBMC 6.11 bounded model checking (SAT), per-query reachability witnesses, native replay under ASan/UBSan of every counterexample and (translation validation, every run) of every witness trace against the real g++ build'}],
    'checks': checks,
    'not_applicable': na,
    'notes': 'Exit codes of ./vp check: 0 property held on everything explored (or only known findings), 1 reproduced violation (VIOLATION line), 2 inconclusive / machinery failure (never a VIOLATION line). Fix commits in /repo are listed in known_findings.json (fixed:).',
}
json.dump(man, open(os.path.join(V, 'MANIFEST.json'), 'w'), indent=1)
print('claimed', len(checks), 'not_applicable', len(na))

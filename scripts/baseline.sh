#!/bin/sh
# Builds /repo's own test suite (hooks guard OFF -- there are no hooks) into a scratch directory outside /repo and runs it.
set -e
B=$(mktemp -d /var/tmp/vp_baseline.XXXXXX)
trap 'rm -rf "$B"' EXIT
cmake -S /repo -B "$B" -G Ninja -DCMAKE_BUILD_TYPE=RelWithDebInfo -DCMAKE_POLICY_VERSION_MINIMUM=3.5 \
  -DFETCHCONTENT_TRY_FIND_PACKAGE_MODE=ALWAYS -DFETCHCONTENT_UPDATES_DISCONNECTED=ON \
  -DFETCHCONTENT_SOURCE_DIR_GOOGLETEST=/usr/src/googletest -DFETCHCONTENT_SOURCE_DIR_GTEST=/usr/src/googletest \
  -DCMAKE_CXX_FLAGS=-Wno-error > "$B/conf.log" 2>&1 || { tail -30 "$B/conf.log"; exit 3; }
cmake --build "$B" -j"$(nproc)" > "$B/build.log" 2>&1 || { tail -60 "$B/build.log"; exit 4; }
cd "$B" && ./test/st_gtests

# C15 -- decoders accept exactly the valid encodings and never overrun the output buffer
LEVEL = 'model_checking'
EXPLANATION = ('hex_decode / base64_decode (caller-buffer and throwing forms, real code incl. b64_decode_size and the wrappers\' length assertions) on an ARBITRARY input string (all 256 byte values) with an '
               'arbitrary 64-bit output_size and a null or exactly output_size-byte output object: success iff the acceptance predicate of the property text holds and the data fits; -1 / ST::codec_error otherwise; '
               'null output returns the implied length; return value = bytes written; bytes beyond it are untouched (snapshot compare) and any write beyond output_size is a bounds violation.')
BOUNDS = {'quick': 'input of every length 0..6 characters (hex: 2 bytes; base64: one group in every padding shape)', 'thorough': 'input of every length 7..10 characters (two base64 groups: padding in the first group, = before data, ...)'}
OUTSIDE = 'inputs longer than 10 characters'
def queries():
    qs = []
    for tier, kmax in (('quick', 6), ('thorough', 10)):
        for op, nm in ((4, 'hex_to_buffer'), (5, 'b64_to_buffer'), (6, 'hex_throwing'), (7, 'b64_throwing')):
            for k in range(0, kmax + 1):
                if tier == 'thorough' and k <= 6: continue
                qs.append(Q('%s_len%d_%s' % (nm, k, tier), 'codec.c', 'codecs.cpp', config='small', defs={'OP': op, 'K': max(k, 1), 'NFIX': k, 'N': 1}, unwind=max(k + 3, 7), heap_cap=16, tiers=(tier,),
                            bound={'input characters': k, 'output_size': 'any 64-bit'}, timeout=600 if tier == 'quick' else 3000))
    return qs

# C14 -- hex and base64 encodings are standard and decode back to the original bytes
LEVEL = 'model_checking'
EXPLANATION = ('(1) base64 per group over the FULL domain: all 2^24 byte triples and tail lengths 1..3 in one loop-free query, against the RFC 4648 definition on the 24-bit group value '
               '(alphabet by arithmetic, independent of the library tables and mask/shift expressions), decoded back through both decoders; '
               '(2) sequences of n arbitrary bytes: length 2n / 4*ceil(n/3), alphabet, = placement, content, decode(encode(x)) == x through the allocating and the caller-buffer decoder '
               '(exactly-sized input and output objects), upper-case hex decodes equally.')
BOUNDS = {'quick': 'groups: all 2^24 triples; sequences of every length n = 0..5 (one query per length; small-string limit 4: result crosses it)', 'thorough': 'sequences n = 6..8 bytes (one query per length)'}
OUTSIDE = 'n > 8 (the loops are position-independent: argued, not mechanised)'
def queries():
    # table-lookup round trips are hard for MiniSat (hex n=3: 47 s) and easy for kissat (9 s): kissat is pinned for this property
    qs = [Q('b64_group_full_domain_tail%d' % t, 'codec.c', 'codecs.cpp', config='small', defs={'OP': 1, 'TFIX': t}, unwind=8, heap_cap=16, solver='kissat', bound={'bytes': 'all 2^(8*%d) values of the group' % t, 'tail': t}, timeout=600) for t in (1, 2, 3)]
    for tier, nmax in (('quick', 5), ('thorough', 8)):
        for n in range(0, nmax + 1):
            if tier == 'thorough' and n <= 5: continue
            # one query per concrete length (a symbolic length ran the SAT back end out of memory at n <= 5)
            qs.append(Q('b64_seq_n%d_%s' % (n, tier), 'codec.c', 'codecs.cpp', config='small', defs={'OP': 2, 'N': max(n, 1), 'NFIX': n}, unwind=max(4 * ((n + 2) // 3) + 3, 2 * n + 3, 7), heap_cap=24, solver='kissat', tiers=(tier,), bound={'bytes': n}, timeout=600 if tier == 'quick' else 3000))   # the harness compares up to SMAX = 2N characters
            qs.append(Q('hex_seq_n%d_%s' % (n, tier), 'codec.c', 'codecs.cpp', config='small', defs={'OP': 3, 'N': max(n, 1), 'NFIX': n}, unwind=max(2 * n + 3, 7), heap_cap=24, solver='kissat', tiers=(tier,), bound={'bytes': n}, timeout=600 if tier == 'quick' else 3000))
    return qs

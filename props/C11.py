# C11 -- formatted output equals the specified rendering of literals, fields and padding
LEVEL = 'model_checking'
EXPLANATION = ('The format_spec fields (alignment, pad, zero-pad flag, width incl. every negative value, precision: any int, #, +, digit class) are SYMBOLIC, so each query covers every flag combination at once. '
               'format_string, format_numeric_string (layout for arbitrary digit text: independent of which digits), pad_size, format_type for bool / const char* / ST::string / char types / every integer type '
               '(digits for radix 16, 8, 2 at full width; radix 10 at 8 and 16 bits), format_char, and the sequential-vs-&N selection of the real apply_format are compared with a reference renderer written from the property text. '
               'Literal/escape handling of the driver is asserted in C10 (reference scanner).')
BOUNDS = {'quick': 'decimal at 32/64 bits on windows of 2^16 values (int: both ends of the type; long long: the bottom end) under a symbolic spec; width <= 8 (all negative widths included), text/digit strings <= 4 bytes (integers: as many digits as the type needs), precision: any int', 'thorough': 'width <= 16, text <= 6 bytes'}
OUTSIDE = 'widths above the bound; decimal rendering of 32/64-bit values outside the windows of 2^16 values at the ends of the type, around zero and around +-10^9 / 10^18 (whole domain: no verdict on any back end, see C12); floating point (C13); spec extraction from the format text beyond what C10 parses'
INTS = [('schar', 8, 1), ('uchar', 8, 0), ('short', 16, 1), ('ushort', 16, 0), ('int', 32, 1), ('uint', 32, 0), ('long', 64, 1), ('ulong', 64, 0), ('llong', 64, 1), ('ullong', 64, 0)]
import math
def queries():
    qs = []
    M = ('core', 'libc', 'strtol')
    for tier, w, t in (('quick', 8, 4), ('thorough', 16, 6)):
        u = w + t + 12
        qs.append(Q('format_string_%s' % tier, 'C11_render.c', 'format.cpp', defs={'OP': 1, 'W': w, 'T': t}, models=M, unwind=u, tiers=(tier,), bound={'width<=': w, 'text<=': t}))
        qs.append(Q('numeric_layout_%s' % tier, 'C11_render.c', 'format.cpp', defs={'OP': 2, 'W': w, 'T': t}, models=M, unwind=u, tiers=(tier,), bound={'width<=': w, 'digits<=': t}))
        for form, nm in ((1, 'bool'), (2, 'cstr'), (3, 'string')):
            qs.append(Q('format_type_%s_%s' % (nm, tier), 'C11_render.c', 'format.cpp', defs={'OP': 3, 'FORM': form, 'W': w, 'T': max(t, 5)}, models=M, unwind=u + 8, tiers=(tier,), bound={'width<=': w, 'text<=': t}))
    for form, nm in ((1, 'format_char'), (2, 'char'), (3, 'char16'), (4, 'char32'), (5, 'int')):
        qs.append(Q('char_class_%s' % nm, 'C11_render.c', 'format.cpp', defs={'OP': 4, 'FORM': form, 'W': 2, 'T': 4}, models=M, unwind=22, bound={'value': 'all values of the type'}))
    for nm, bits, sg in INTS:
        for rc, rn, rad in ((2, 'hex', 16), (3, 'HEX', 16), (4, 'oct', 8), (5, 'bin', 2), (1, 'dec', 10)):
            if rad == 10 and bits > 16: continue
            digits = int(math.ceil(bits / math.log2(rad)))
            tier = 'quick' if (bits == 8 or (bits == 16 and rn in ('hex', 'HEX', 'oct')) or rn == 'hex') and nm not in ('long', 'ulong') else 'thorough'   # 16-bit decimal: 140-170 s, 32/64-bit binary: 150-600 s
            qs.append(Q('int_%s_%s' % (nm, rn), 'C11_render.c', 'format.cpp', defs={'OP': 5, 'ITYPE': nm, 'IBITS': bits, 'ISIGNED': sg, 'RADIX_CLASS': rc, 'W': 8, 'T': digits}, models=M,
                        unwind=digits + 8 + 8 + 6, tiers=(tier, 'thorough') if tier == 'quick' else ('thorough',), bound={'type': nm, 'radix': rad, 'values': 'all 2^%d' % bits, 'width<=': 8}, timeout=600 if tier == 'quick' else 3000))
    # decimal at 32/64 bits, every flag combination, on windows of 2^16 values (both ends of the type incl. the most negative value, around zero, around +-10^9 / 10^18): see C12
    def swin(bits, sg):
        if sg:
            mn, mx = -(1 << (bits - 1)), (1 << (bits - 1)) - 1; p = 10 ** (9 if bits == 32 else 18)
            return [('min', mn, mn + 65535), ('zero', -32768, 32767), ('max', mx - 65535, mx), ('negp', -p - 32768, -p + 32767), ('posp', p - 32768, p + 32767)]
        mx = (1 << bits) - 1; p = 10 ** (9 if bits == 32 else 19)
        return [('zero', 0, 65535), ('max', mx - 65535, mx), ('posp', p - 32768, p + 32767)]
    def cint(v, sg): return ('(%dLL - 1)' % (v + 1)) if v < 0 and sg else (('%dLL' % v) if sg else ('%dULL' % v))
    for nm, bits, sg in INTS:
        if bits <= 16: continue
        digits = int(math.ceil(bits / math.log2(10)))
        for wn, lo, hi in swin(bits, sg):
            defs = {'OP': 5, 'ITYPE': nm, 'IBITS': bits, 'ISIGNED': sg, 'RADIX_CLASS': 1, 'W': 8, 'T': digits}
            defs.update({'VMIN': cint(lo, 1), 'VMAX': cint(hi, 1)} if sg else {'VMINU': cint(lo, 0), 'VMAX': cint(hi, 0)})
            quick = (nm, wn) in (('int', 'min'), ('int', 'max'), ('llong', 'min'))     # measured under load: 30-80 s; the windows around zero (digit count 1..5 symbolic) take 230-480 s: thorough
            qs.append(Q('int_%s_dec_win_%s' % (nm, wn), 'C11_render.c', 'format.cpp', defs=defs, models=M, unwind=digits + 8 + 8 + 6, tiers=('quick', 'thorough') if quick else ('thorough',),
                        bound={'type': nm, 'radix': 10, 'values': '[%d, %d]' % (lo, hi), 'width<=': 8}, timeout=900))
    SEL = [('{}{}{}', 'ABBCCC'), ('{&3}{}{}', 'CCCABB'), ('{}{&1}{}', 'AABB'), ('{&2}{&2}{}', 'BBBBA'), ('{}{&3}{&1}{}', 'ACCCABB'), ('x{&2}y{}z', 'xBByAz')]
    for k, (f, e) in enumerate(SEL):
        qs.append(Q('select_%d' % k, 'C11_render.c', 'format.cpp', defs={'OP': 6, 'FMT': '"%s"' % f, 'EXPECT': '"%s"' % e, 'W': 8, 'T': 4}, models=M, unwind=24, object_bits=10, bound={'format': f, 'expected': e}))
    return qs

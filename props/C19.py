# C19 -- allocation failure propagates cleanly and leaves every object destructible
LEVEL = 'model_checking'
EXPLANATION = ('Single-fault injection as a SYMBOLIC variable: fail_at in [0, k) selects the allocation (operator new / new[]) that throws std::bad_alloc, on top of the inductive-step harnesses of C05 (buffer), C16 (string_stream growth), '
               'C04 (ST::string copy / assignment / += / + / slicing / case mapping / trim / replace), C08 (slicing), C03 (conversions), C14 (codecs) and C09 (split through the vector model, whose growth is one more injectable failure point). Asserted after the failure: std::bad_alloc is what escapes; every involved object '
               'satisfies its representation invariant and holds its previous value or is empty; data() is not a released pointer (dereferencing it is a checked access); destroying everything with the real destructors gives no double free, '
               'no free of in-object storage and no leak (live-block counter).')
BOUNDS = {'quick': 'one failing allocation per operation, every allocation index the operation can reach; buffer sizes 0..L+2 (char and char32_t), stream capacity 8/16, strings <= 5 bytes; ST::string copy / assignment / += / + / substr / right / to_upper / trim with failing allocation index 0..2',
          'thorough': 'all four buffer element types, sizes 0..2L+2'}
OUTSIDE = 'more than one failing allocation per operation; allocation failures inside libstdc++ (std::function, iostream, std::vector growth beyond the modelled failure point)'
def queries():
    qs = []
    TYPES = [('c8', 'uint8_t', 16, 1), ('c32', 'uint32_t', 12, 4), ('c16', 'uint16_t', 16, 2), ('wc', 'uint32_t', 12, 4)]
    OPS = {1: 'copy_ctor', 3: 'ptr_ctor', 4: 'fill_ctor', 6: 'copy_assign', 10: 'allocate', 11: 'allocate_fill'}
    for sfx, elem, L, esz in TYPES:
        for op, name in OPS.items():
            for tier, maxs in (('quick', L + 2), ('thorough', 2 * L + 2)):
                if tier == 'quick' and sfx in ('c16', 'wc'): continue
                qs.append(Q('buf_%s_%s_%s' % (name, sfx, tier), 'C05_buf.c', 'buffer.cpp', defs={'SFX': sfx, 'ELEM': elem, 'L': L, 'MAXS': maxs, 'OP': op, 'FAULT': 2}, unwind=maxs + 3, heap_cap=(maxs + 1) * esz + 8,
                            tiers=(tier,), bound={'max_size': maxs, 'type': sfx, 'op': name, 'failing allocation': 'index 0 or 1'}))
    for op, nm in ((1, 'append'), (3, 'append_char')):
        for capk in (0, 1):
            cap = 8 << capk; aa = 12 if capk == 0 else 6
            qs.append(Q('stream_%s_cap%d' % (nm, cap), 'C16_stream.c', 'sstream.cpp', config='small', defs={'OP': op, 'CAPK': capk, 'A': aa, 'FAULT': 2}, unwind=cap * 4 + aa + 12, hunwind=cap * 4 + aa + 12, heap_cap=max(4 * cap, 32), object_bits=10,
                        bound={'op': nm, 'capacity': cap, 'appended<=': aa, 'failing allocation': 'the growth'}, timeout=900))
    for form, nm in ((1, 'substr'),):
        for heap in (1,):   # an in-object source (< 4 bytes) never makes substr allocate
            qs.append(Q('%s_%s' % (nm, 'heap' if heap else 'sso'), 'C08_slice.c', 'string.cpp', config='small', defs={'OP': 1, 'FORM': 1, 'MAXS': 5, 'SRC_HEAP': heap, 'FAULT': 2}, unwind=8, heap_cap=16, bound={'op': nm, 'size': 5, 'source storage': 'heap' if heap else 'in-object'}))
    # ST::string operations (the value-semantics harness of C04 with a symbolic failing allocation): copy, assignment, +=, +, slicing, case mapping, trim, replace
    for op, nm, mm, tiers in ((1, 'copy_ctor', 5, ('quick', 'thorough')), (2, 'copy_assign', 5, ('quick', 'thorough')), (5, 'append_self', 4, ('quick', 'thorough')), (7, 'concat', 4, ('quick', 'thorough')), (8, 'substr_whole', 5, ('quick', 'thorough')),
                              (10, 'trim', 5, ('quick', 'thorough')), (11, 'to_upper', 5, ('quick', 'thorough')), (12, 'left_all', 5, ('thorough',)), (13, 'right_all', 5, ('quick', 'thorough')), (15, 'append', 4, ('quick', 'thorough')),
                              (17, 'concat_cstr', 4, ('quick', 'thorough')), (18, 'cstr_concat', 4, ('quick', 'thorough')), (19, 'concat_char', 4, ('quick', 'thorough')), (20, 'append_char', 4, ('quick', 'thorough')), (21, 'char32_concat', 4, ('quick', 'thorough')),
                              (6, 'replace_self', 4, ('thorough',)), (9, 'replace_nomatch', 4, ('thorough',))):
        qs.append(Q('string_%s' % nm, 'C04_value.c', 'string.cpp', config='small', defs={'OP': op, 'MAXS': mm, 'FAULT': 3}, unwind=2 * mm + 4, heap_cap=4 * mm + 8, tiers=tiers,
                    loops=[(r'vpx_memcmp', mm + 1), (r'vpx_memchr', mm + 2)], bound={'op': nm, 'strings<=': mm, 'failing allocation': 'index 0, 1 or 2 of the operation'}, timeout=900 if op not in (6, 9) else 3000, mem_gb=10))
    import importlib.util, os
    _s = importlib.util.spec_from_file_location('convcommon', os.path.join(os.path.dirname(__file__), 'convcommon.py')); cc = importlib.util.module_from_spec(_s); _s.loader.exec_module(cc)
    for src, dst, n in (('u8', 'u16', 4), ('u16', 'u8', 3), ('l1', 'u32', 4)):
        d = cc.conv_defs(src, dst, n, 1 if src != 'l1' else None); d['FAULT'] = 2; d.pop('EXPECT_THROW', None)
        qs.append(Q('conv_%s_%s' % (src, dst), 'conv.c', 'utf.cpp', config='small', defs=d, unwind=n + 2, hunwind=max(4 * n + 4, 18), bound={'pair': '%s->%s' % (src, dst), 'max_units': n}, timeout=600))
    qs.append(Q('b64_encode_n5', 'codec.c', 'codecs.cpp', config='small', defs={'OP': 2, 'N': 5, 'NFIX': 5, 'FAULT': 2}, unwind=11, heap_cap=24, solver='kissat', bound={'bytes': 5}, timeout=600))
    qs.append(Q('hex_encode_n3', 'codec.c', 'codecs.cpp', config='small', defs={'OP': 3, 'N': 3, 'NFIX': 3, 'FAULT': 2}, unwind=9, heap_cap=24, solver='kissat', bound={'bytes': 3}, timeout=600))
    qs.append(Q('split_str_vector_growth', 'C09_split.c', 'split.cpp', config='small', noinline=True, stubs=('_ZNSt6vector', '_ZNKSt6vector'), defs={'OP': 1, 'NS': 3, 'NM': 1, 'FAULT': 3}, unwind=6, hunwind=8,
                loops=[(r'vp_mem(cpy|move)_u8', 8), (r'vpx_memcmp', 2), (r'vpx_memchr', 4)], heap_cap=16, object_bits=10, bound={'op': 'split', 'subject': 3, 'failing': 'the k-th growth of the result vector, k < 3'}, timeout=900, mem_gb=8))
    return qs

# C10 -- the format-string parser is total and memory-safe on every format string
LEVEL = 'model_checking'
EXPLANATION = ('The real driver (format_writer ctor, next_format, fetch_prefix, parse_format, apply_format with its std::function array for 0/1/2 arguments, format_string, format_char) runs on a format string of '
               'n ARBITRARY non-NUL bytes + NUL held in an exactly (n+1)-byte heap object, with a logging final subclass as sink and a glibc-faithful strtol model whose every read is bounds-checked. '
               'Asserted: only ST::bad_format / std::out_of_range / std::invalid_argument escape; no read past the terminator; no abort other than the documented padded-character contract assertion; '
               'all loops terminate within the unwinding bound; every literal handed to the sink lies inside the format string; literal output equals the reference scanner.')
BOUNDS = {'quick': 'format strings of every length 0..3 (parser alone), 0..2 (apply_format with 0, 1, 2 const char* arguments and 1 char argument); all byte values; renderers (text, bool, ST::string, char, int-as-char) under a fully symbolic format_spec, width <= 8, text <= 4',
          'thorough': 'lengths 4..5 (parser), 3..4 (apply_format); measured: parser 82 s at length 3, 309 s at length 4'}
OUTSIDE = 'format strings longer than the bound (the renderers are additionally run under a fully symbolic format_spec, so widths/precisions that need longer format strings are covered at the rendering stage); numeric argument types (rendering is C11/C12/C13); ST::unicode_error from the final to_string (C02/C16); std::function dispatch for more than two arguments'
ALLOW = ('Char formatting does not currently support padding',)
def L(n):
    # per-loop bounds derived from the format length n: a field needs >= 2 bytes, every scanning loop advances by >= 1 byte per iteration;
    # --unwinding-assertions reports a bound that is too small, so a wrong derivation cannot produce a false 'holds'
    return [(r'vp_fmt_parse_all|apply_format|vp_fmt_apply', n // 2 + 2), (r'parse_format', n + 2), (r'next_format|fetch_prefix', n + 2), (r'^vpx_strtol', n + 1), (r'^vpx_strlen', 5)]
def queries():
    qs = [Q('null_format', 'C10_format.c', 'format.cpp', defs={'OP': 6, 'NFIX': 0}, models=('core', 'libc', 'strtol'), unwind=4)]
    for tier, lo, hi, lo2, hi2 in (('quick', 0, 3, 0, 2), ('thorough', 4, 5, 3, 4)):
        for n in range(lo, hi + 1):
            qs.append(Q('parser_len%d_%s' % (n, tier), 'C10_format.c', 'format.cpp', defs={'OP': 1, 'NFIX': n}, models=('core', 'libc', 'strtol'), unwind=n + 3, hunwind=10, object_bits=10, loops=L(n), tiers=(tier,),
                        bound={'format length': n}, timeout=900 if tier == 'quick' else 3000))
        for n in range(lo2, hi2 + 1):
            for op, nm in ((2, 'apply0'), (3, 'apply1_cstr'), (4, 'apply2_cstr'), (5, 'apply1_char')):
                qs.append(Q('%s_len%d_%s' % (nm, n, tier), 'C10_format.c', 'format.cpp', defs={'OP': op, 'NFIX': n}, models=('core', 'libc', 'strtol'), unwind=n + 3, hunwind=10, object_bits=10, loops=L(n), tiers=(tier,),
                            allow_aborts=ALLOW if op == 5 else (), bound={'format length': n, 'arguments': nm}, timeout=900 if tier == 'quick' else 3000))
    # the rendering stage under EVERY spec the parser can hand over (format_spec fields symbolic: width incl. negatives -- a parsed width >= 2^31 narrows to a
    # negative int --, precision any int, every flag combination): the text / bool / ST::string / character renderers on arbitrary text.  These are the C11
    # harnesses; what C10 takes from them is the absence of out-of-bounds accesses, oversized requests, aborts and non-termination.
    M = ('core', 'libc', 'strtol')
    for tier, w, t in (('quick', 8, 4), ('thorough', 16, 6)):
        u = w + t + 12
        qs.append(Q('render_safety_format_string_%s' % tier, 'C11_render.c', 'format.cpp', defs={'OP': 1, 'W': w, 'T': t}, models=M, unwind=u, tiers=(tier,), bound={'spec': 'symbolic', 'width<=': w, 'text<=': t}))
        for form, nm in ((1, 'bool'), (2, 'cstr'), (3, 'string')):
            qs.append(Q('render_safety_%s_%s' % (nm, tier), 'C11_render.c', 'format.cpp', defs={'OP': 3, 'FORM': form, 'W': w, 'T': max(t, 5)}, models=M, unwind=u + 8, tiers=(tier,), bound={'spec': 'symbolic', 'width<=': w, 'text<=': t}))
    for form, nm in ((2, 'char'), (5, 'int')):
        qs.append(Q('render_safety_char_class_%s' % nm, 'C11_render.c', 'format.cpp', defs={'OP': 4, 'FORM': form, 'W': 2, 'T': 4}, models=M, unwind=22, bound={'value': 'all values of the type'}))
    return qs

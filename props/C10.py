# C10 -- the format-string parser is total and memory-safe on every format string
LEVEL = 'model_checking'
EXPLANATION = ('The real driver (format_writer ctor, next_format, fetch_prefix, parse_format, apply_format with its std::function array for 0/1/2 arguments, format_string, format_char) runs on a format string of '
               'n ARBITRARY non-NUL bytes + NUL held in an exactly (n+1)-byte heap object, with a logging final subclass as sink and a glibc-faithful strtol model whose every read is bounds-checked. '
               'Asserted: only ST::bad_format / std::out_of_range / std::invalid_argument escape; no read past the terminator; no abort other than the documented padded-character contract assertion; '
               'all loops terminate within the unwinding bound; every literal handed to the sink lies inside the format string; literal output equals the reference scanner.')
BOUNDS = {'quick': 'format strings of every length 0..3 (parser alone), 0..2 (apply_format with 0, 1, 2 const char* arguments and 1 char argument); all byte values',
          'thorough': 'lengths 4..5 (parser), 3..4 (apply_format); measured: parser 82 s at length 3, 309 s at length 4'}
OUTSIDE = 'format strings longer than the bound; argument types other than const char* and char (rendering is C11/C12/C13); ST::unicode_error from the final to_string (C02/C16); std::function dispatch for more than two arguments'
ALLOW = ('Char formatting does not currently support padding',)
def L(n):
    # per-loop bounds derived from the format length n: a field needs >= 2 bytes, every scanning loop advances by >= 1 byte per iteration;
    # --unwinding-assertions reports a bound that is too small, so a wrong derivation cannot produce a false 'holds'
    return [(r'vp_fmt_parse_all|apply_format|vp_fmt_apply', n // 2 + 2), (r'parse_format', n + 2), (r'next_format|fetch_prefix', n + 2), (r'^vpx_strtol', n + 1), (r'^vpx_strlen', 5)]
def queries():
    qs = [Q('null_format', 'C10_format.c', 'format.cpp', defs={'OP': 6, 'NFIX': 0}, models=('core', 'libc', 'strtol'), unwind=4)]
    for tier, lo, hi, lo2, hi2 in (('quick', 0, 3, 0, 2), ('thorough', 4, 5, 3, 4)):
        for n in range(lo, hi + 1):
            qs.append(Q('parser_len%d_%s' % (n, tier), 'C10_format.c', 'format.cpp', defs={'OP': 1, 'NFIX': n}, models=('core', 'libc', 'strtol'), unwind=n + 3, hunwind=10, object_bits=10, loops=L(n), tiers=(tier,),
                        bound={'format length': n}, timeout=900 if tier == 'quick' else 3000))
        for n in range(lo2, hi2 + 1):
            for op, nm in ((2, 'apply0'), (3, 'apply1_cstr'), (4, 'apply2_cstr'), (5, 'apply1_char')):
                qs.append(Q('%s_len%d_%s' % (nm, n, tier), 'C10_format.c', 'format.cpp', defs={'OP': op, 'NFIX': n}, models=('core', 'libc', 'strtol'), unwind=n + 3, hunwind=10, object_bits=10, loops=L(n), tiers=(tier,),
                            allow_aborts=ALLOW if op == 5 else (), bound={'format length': n, 'arguments': nm}, timeout=900 if tier == 'quick' else 3000))
    return qs

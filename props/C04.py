# C04 -- ST::string has value semantics: reads never mutate, results never alias
LEVEL = 'model_checking'
EXPLANATION = ('Histories are covered by ONE step from an arbitrary valid state: a pool of two arbitrary ST::string objects (every size class around the small-string limit, configured to 4) and one public operation. '
               'Asserted: every pool member that is not the target keeps data pointer, size and bytes; every returned string satisfies the representation invariant and its heap block is a different object from every pool member\'s '
               '(also when the result equals its source: whole-string substr, no-op replace/trim, left/right with n >= size); destroying result and sources in either order leaves the other intact (use-after-free is a built-in check); '
               'mutators (=, +=, clear, move) change only their target; self-referential calls (s = s, s += s, s.replace(s, s)). The same frame assertions are embedded in the harnesses of C06-C09 for compare/find/slice/split/replace.')
BOUNDS = {'quick': 'strings <= 5 bytes, small-string limit 4, all ASCII byte values incl. NUL', 'thorough': 'strings <= 7 bytes'}
OUTSIDE = 'pools of more than two strings and operation sequences (inductive argument over the representation invariant of C05); vector-returning operations are checked in C09 through the vector model'
OPS = {1: 'copy_then_kill_source', 2: 'copy_assign', 3: 'self_assign', 4: 'move_assign', 5: 'append_self', 6: 'replace_self', 7: 'concat', 8: 'substr_whole', 9: 'replace_nomatch', 10: 'trim_nothing', 11: 'to_upper_nochange',
       12: 'left_all', 13: 'right_all', 14: 'clear', 15: 'append', 16: 'from_validated_then_mutate_source',
       17: 'concat_cstr', 18: 'cstr_concat', 19: 'concat_char', 20: 'append_char', 21: 'char32_concat'}
def queries():
    qs = []
    for tier, m in (('quick', 5), ('thorough', 7)):
        for op, nm in OPS.items():
            for first in (0, 1):
                if first and op not in (1, 6, 7, 8, 9, 12): continue
                mm = 3 if op in (6, 9) else (4 if op in (5, 15, 7, 17, 18, 19, 20, 21) else m)   # replace-based operations: 3 bytes (the copying scan at symbolic offsets is the costly part, see C09)
                if op in (6, 9) and tier == 'thorough': mm = 4
                d = {'OP': op, 'MAXS': mm}
                if first: d['DESTROY_RESULT_FIRST'] = 1
                heavy = op in (5, 6, 9, 15, 7, 17, 18, 19, 20, 21)
                qs.append(Q('%s%s_%s' % (nm, '_result_first' if first else '', tier), 'C04_value.c', 'string.cpp', config='small', defs=d, unwind=2 * mm + 4, heap_cap=4 * mm + 8, tiers=(tier,),
                            loops=[(r'vpx_memcmp', mm + 1), (r'vpx_memchr', mm + 2)], bound={'op': nm, 'strings<=': mm}, timeout=900 if tier == 'quick' else 3000, mem_gb=10 if heavy else 6))
    return qs

# C02 -- validation modes accept, reject and repair malformed input correctly
import importlib.util, os
_s = importlib.util.spec_from_file_location('convcommon', os.path.join(os.path.dirname(__file__), 'convcommon.py')); cc = importlib.util.module_from_spec(_s); _s.loader.exec_module(cc)
LEVEL = 'model_checking'
EXPLANATION = ('(a) Every converter reading UTF-8/16/32 (12 pairs + wchar_t aliases, Latin-1 with and without out-of-range substitution) on ARBITRARY units in each validation mode, against the structural reference of the property text: '
               'check_validity throws exactly when a unit is malformed (tolerated forms accepted), substitute_invalid never throws and equals the reference repair, well-formed text unchanged; '
               '(b) the three separate UTF-8 deciders (validator, repairer, decoder) agree on every input, repaired text re-validates, repair leaves neighbours intact; '
               '(c) every UTF-8 route into ST::string (from_utf8, ctor/set from pointer, char_buffer lvalue/rvalue, std::string, string_view) per mode; '
               '(d) default-argument forms behave as ST_DEFAULT_VALIDATION for each of the three build-time settings (three IR generations); (e) substitute_invalid output passes check_validity.')
BOUNDS = {'quick': 'UTF-8 input <= 3 bytes (converters), validator/repairer: every length 0..3, routes into ST::string: lengths 2..3, UTF-16 <= 2 units, UTF-32 <= 2 units; all unit values; one query per mode',
          'thorough': 'UTF-8 <= 5 bytes (converters), validator/repairer/routes 0..6, UTF-16 <= 3, UTF-32 <= 3'}
OUTSIDE = 'longer inputs (every loop examines at most the 4 units at its cursor: argued, not mechanised); UTF-32 outputs carrying a tolerated 4-byte form > U+10FFFF are excluded from clause (e) as the property counts that form as well-formed'
def queries():
    qs = []
    NQ = {'u8': 3, 'u16': 2, 'u32': 2, 'wc': 2}; NT = {'u8': 5, 'u16': 3, 'u32': 3, 'wc': 3}
    for tier, NN in (('quick', NQ), ('thorough', NT)):
        for src, dst in cc.PAIRS + cc.WCHAR_PAIRS:
            if src == 'l1': continue
            n = NN[src]
            ident = (src, dst) in cc.IDENTITY
            for mode in (0, 1, 2):
                d = cc.conv_defs(src, dst, n, mode)
                if ident:
                    # 4-byte wchar_t <-> UTF-32 is a plain copy that ignores the validation mode: KNOWN FINDING KF-C02-1 (known_findings.json).
                    # The finding's input class (a unit > 0x10FFFF under substitute_invalid / check_validity) is assumed away here, so every OTHER
                    # violation of this pair still fails; the query kf_* below re-establishes the finding itself on every run.
                    d['KF_EXCLUDE_OUT_OF_RANGE'] = 1; d.pop('EXPECT_THROW', None)
                qs.append(Q('conv_%s_%s_m%d_%s' % (src, dst, mode, tier), 'conv.c', 'utf.cpp', mem_gb=10, defs=d, unwind=n + 2, hunwind=max(4 * n + 4, 18), tiers=(tier,),
                            bound={'pair': '%s->%s' % (src, dst), 'max_units': n, 'mode': mode}, timeout=400 if tier == 'quick' else 1800))
    for mode in (0, 1, 2):   # 4-byte UTF-8 forms (incl. the tolerated ones above U+10FFFF) need 4 bytes: UTF-8 -> UTF-16 at N = 4 in the quick tier as well
        qs.append(Q('conv_u8_u16_m%d_n4_quick' % mode, 'conv.c', 'utf.cpp', mem_gb=10, defs=cc.conv_defs('u8', 'u16', 4, mode), unwind=6, hunwind=20, tiers=('quick',), bound={'pair': 'u8->u16', 'max_units': 4, 'mode': mode}, timeout=400))
    for src, dst in sorted(cc.IDENTITY):
        for mode in (1, 2):
            d = cc.conv_defs(src, dst, 1, mode); d.pop('EXPECT_THROW', None)
            qs.append(Q('kf_%s_%s_m%d' % (src, dst, mode), 'conv.c', 'utf.cpp', defs=d, unwind=4, hunwind=18, bound={'pair': '%s->%s' % (src, dst), 'max_units': 1, 'mode': mode, 'purpose': 'known finding KF-C02-1'}))
    for tier, lo, hi in (('quick', 0, 4), ('thorough', 5, 6)):
        for n in range(lo, hi + 1):
            qs.append(Q('deciders_len%d_%s' % (n, tier), 'C02_valid.c', 'strconv.cpp', config='small', defs={'OP': 1, 'NFIX': n}, unwind=3 * n + 6, heap_cap=max(3 * n + 2, 16), tiers=(tier,), bound={'bytes': n}, timeout=600 if tier == 'quick' else 3000))
            if n <= 1:   # len 2: > 45 GB (see the note on substitute_invalid routes below)
                qs.append(Q('repair_buffer_len%d_%s' % (n, tier), 'C02_valid.c', 'strconv.cpp', config='small', defs={'OP': 5, 'NFIX': n}, unwind=3 * n + 6, heap_cap=max(3 * n + 2, 16), tiers=(tier,), bound={'bytes': n}, timeout=600 if tier == 'quick' else 3000))
            for route, rn in ((1, 'from_utf8'), (2, 'ctor_cbuf'), (3, 'ctor_cbuf_move'), (4, 'set_cbuf'), (5, 'ctor_ptr'), (6, 'set_ptr'), (8, 'ctor_string_view'), (7, 'ctor_std_string'), (10, 'from_std_string'), (11, 'from_std_u8string_view'), (12, 'ctor_char8_ptr')):
                # the std::string overloads run libstdc++'s basic_string code, translated along with the library
                if tier == 'quick' and (n < 2 or n > 3 or (n == 3 and route not in (1, 3))): continue
                if route in (7, 10, 11, 12) and n > 3: continue
                if tier == 'thorough' and n > 5: continue
                for mode in (0, 1, 2):
                    # substitute_invalid through ST::string: the repaired text is written at data-dependent offsets into a result whose storage mode depends on
                    # its (symbolic) size; measured > 45 GB in CBMC's propositional reduction at 2 input bytes.  The route is checked at 1 byte (wiring:
                    # repairer called, result committed) and the repairer itself at full length (deciders_*, repair_buffer_*).
                    if mode == 1 and n != 2: continue
                    nn = 1 if mode == 1 else n
                    if mode == 1: n_save = n; n = 1
                    qs.append(Q('route_%s_len%d_m%d_%s' % (rn, n, mode, tier), 'C02_valid.c', 'strconv.cpp', config='small', defs={'OP': 2, 'ROUTE': route, 'NFIX': n, 'MODE': mode}, unwind=3 * n + 6, heap_cap=max(3 * n + 2, 16), tiers=(tier,),
                                bound={'route': rn, 'bytes': n, 'mode': mode}, timeout=600 if tier == 'quick' else 3000))
                    if mode == 1: n = n_save
    for dv, dn in (('ST::assume_valid', 'assume_valid'), ('ST::substitute_invalid', 'substitute_invalid'), ('ST::check_validity', 'check_validity')):
        for route, rn in ((1, 'from_utf8'), (2, 'ctor_cbuf')):
            qs.append(Q('default_%s_%s' % (dn, rn), 'C02_valid.c', 'strconv.cpp', config='small', cxxdefs=('ST_DEFAULT_VALIDATION=%s' % dv,), defs={'OP': 3, 'ROUTE': route, 'NFIX': 1 if 'substitute' in dn else 2, 'DFLT_MODE': {'assume_valid': 0, 'substitute_invalid': 1, 'check_validity': 2}[dn]}, unwind=12, heap_cap=16, timeout=600,
                        bound={'ST_DEFAULT_VALIDATION': dn, 'route': rn, 'bytes': 2}))
    for tier, n16, n32 in (('quick', 1, 2), ('thorough', 2, 3)):   # the UTF-16 chain took 365 s at 2 bytes
        for wide in (16, 32):
            n = n16 if wide == 16 else n32
            if tier == 'quick' and wide == 16: continue   # 200-365 s: thorough only
            qs.append(Q('revalidate_u%d_%s' % (wide, tier), 'C02_valid.c', 'strconv.cpp', config='small', defs={'OP': 4, 'WIDE': wide, 'NFIX': n}, unwind=3 * n + 6, heap_cap=max(12 * n + 8, 32), tiers=(tier,), bound={'bytes': n, 'chain': 'u8->u%d->u8' % wide}, timeout=900 if tier == 'quick' else 3000))
    return qs

# C20 -- concurrent use needs no locking
LEVEL = 'other'
EXPLANATION = ('CBMC refuses to explore interleavings of pointer-using threads ("pointer handling for concurrency is unsound") and no other engine is installed, so the schedule quantifier is NOT explored. '
               'Decided by the solver instead, for every input inside the bound, is the sufficient condition the README guarantee rests on -- absence of hidden shared mutable state: (i) objects shared between threads and passed only '
               'through const interfaces are never written (every store of the translated code is checked against registered read-only regions; a store of an unchanged value counts); (ii) every non-constant module-level object '
               'reachable from the translated code (enumerated from the regenerated IR; none on the unchanged tree) is bit-identical after a second call; (iii) a repeated call returns the same result. '
               'IR containing atomics or fences makes the check exit 2 rather than guess. The step from (i)-(iii) to "no data race for any schedule" is a standard non-interference argument, stated, not mechanised.')
LEVEL_TEXT = EXPLANATION
BOUNDS = {'quick': 'shared strings of 4..5 bytes (heap-backed) and <= 3 bytes (in-object), 10 const operations; thread-local work: double formatting with renderings up to 80 characters, from_int, base64/hex round trip, UTF-8 -> UTF-16', 'thorough': 'same'}
OUTSIDE = 'thread interleavings themselves; operations not listed (they share the kernels that are covered); libstdc++/libc internals (locale, iostream, snprintf)'
LEVEL_NOTE = 'level "other": bounded symbolic frame-condition check plus an unmechanised non-interference argument; trusted base as for the other checks.'
G1 = {1: 'compare', 2: 'find', 3: 'hash', 4: 'eq_cstr_via_c_str', 5: 'substr', 6: 'to_upper', 7: 'concat', 8: 'copy', 9: 'starts_ends_with', 10: 'left'}
def queries():
    qs = []
    for op, nm in G1.items():
        qs.append(Q('shared_%s' % nm, 'C20_shared.c', 'string.cpp', config='small', defs={'GROUP': 1, 'OP': op}, unwind=12, hunwind=14, heap_cap=16, loops=[(r'vpx_memcmp', 7), (r'vpx_memchr', 7)], solver='kissat' if op == 3 else None,
                    bound={'operation': nm, 'shared strings': '4..5 bytes heap-backed, <= 3 bytes in-object'}, timeout=900))
    qs.append(Q('local_format_double', 'C20_shared.c', 'format.cpp', defs={'GROUP': 2, 'OP': 1, 'VP_RENDER_MAX': 80}, models=('core', 'libc', 'snprintf', 'strtol'), unwind=100, heap_cap=96, bound={'operation': 'ST::format double renderer twice', 'rendering<=': 80}, timeout=900))
    qs.append(Q('local_from_int', 'C20_shared.c', 'numeric.cpp', config='small', defs={'GROUP': 2, 'OP': 2}, unwind=22, heap_cap=32, bound={'operation': 'from_int twice'}))
    qs.append(Q('local_codecs', 'C20_shared.c', 'codecs.cpp', config='small', defs={'GROUP': 2, 'OP': 3}, unwind=10, heap_cap=16, solver='kissat', bound={'operation': 'base64 and hex round trips'}))
    qs.append(Q('local_utf8_utf16', 'C20_shared.c', 'utf.cpp', config='small', defs={'GROUP': 2, 'OP': 4}, unwind=6, hunwind=18, heap_cap=16, bound={'operation': 'utf8_to_utf16 twice'}))
    return qs

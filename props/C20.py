# C20 -- concurrent use needs no locking
LEVEL = 'other'
EXPLANATION = ('CBMC refuses to explore interleavings of pointer-using threads ("pointer handling for concurrency is unsound") and no other engine is installed, so the schedule quantifier is NOT explored. '
               'Decided by the solver instead, for every input inside the bound, is the sufficient condition the README guarantee rests on -- absence of hidden shared mutable state: (i) objects shared between threads and passed only '
               'through const interfaces are never written (every store of the translated code is checked against registered read-only regions; a store of an unchanged value counts); (ii) every non-constant module-level object '
               'reachable from the translated code (enumerated from the regenerated IR; none on the unchanged tree) is written only inside ABI-guarded one-time initialisation (snapshot before the first call, re-taken at every __cxa_guard_release; bit-identical after the first and after a second, independent call) -- for the dedicated harness AND for the harness bodies of the other properties run twice (twice_*, rt/model_twice.c); (iii) a repeated call returns the same result. '
               'IR containing atomics or fences makes the check exit 2 rather than guess. The step from (i)-(iii) to "no data race for any schedule" is a standard non-interference argument, stated, not mechanised.')
LEVEL_TEXT = EXPLANATION
BOUNDS = {'quick': 'shared strings of 4..5 bytes (heap-backed) and <= 3 bytes (in-object), 10 const operations; thread-local work: double formatting with renderings up to 80 characters, from_int, base64/hex round trip, UTF-8 -> UTF-16; twice_*: 56 harness bodies of C03..C17 at their quick bounds, run twice', 'thorough': 'twice_*: 160 harness bodies of C03..C17 at their quick bounds, run twice'}
OUTSIDE = 'thread interleavings themselves; operations not listed (they share the kernels that are covered); libstdc++/libc internals (locale, iostream, snprintf)'
LEVEL_NOTE = 'level "other": bounded symbolic frame-condition check plus an unmechanised non-interference argument; trusted base as for the other checks.'
G1 = {1: 'compare', 2: 'find', 3: 'hash', 4: 'eq_cstr_via_c_str', 5: 'substr', 6: 'to_upper', 7: 'concat', 8: 'copy', 9: 'starts_ends_with', 10: 'left'}
def queries():
    qs = []
    for op, nm in G1.items():
        qs.append(Q('shared_%s' % nm, 'C20_shared.c', 'string.cpp', config='small', defs={'GROUP': 1, 'OP': op}, unwind=12, hunwind=14, heap_cap=16, loops=[(r'vpx_memcmp', 7), (r'vpx_memchr', 7)], solver='kissat' if op == 3 else None,
                    bound={'operation': nm, 'shared strings': '4..5 bytes heap-backed, <= 3 bytes in-object'}, timeout=900))
    qs.append(Q('local_format_double', 'C20_shared.c', 'format.cpp', defs={'GROUP': 2, 'OP': 1, 'VP_RENDER_MAX': 80}, models=('core', 'libc', 'snprintf', 'strtol'), unwind=100, heap_cap=96, bound={'operation': 'ST::format double renderer twice', 'rendering<=': 80}, timeout=900))
    qs.append(Q('local_from_int', 'C20_shared.c', 'numeric.cpp', config='small', defs={'GROUP': 2, 'OP': 2}, unwind=22, heap_cap=32, bound={'operation': 'from_int twice'}))
    qs.append(Q('local_codecs', 'C20_shared.c', 'codecs.cpp', config='small', defs={'GROUP': 2, 'OP': 3}, unwind=10, heap_cap=16, solver='kissat', bound={'operation': 'base64 and hex round trips'}))
    qs.append(Q('local_utf8_utf16', 'C20_shared.c', 'utf.cpp', config='small', defs={'GROUP': 2, 'OP': 4}, unwind=6, hunwind=18, heap_cap=16, bound={'operation': 'utf8_to_utf16 twice'}))
    # (ii) for the operations of the OTHER properties: their harness bodies run twice on independent inputs (rt/model_twice.c); module-level mutable state of the
    # translated code must be identical after the second run.  One small query per operation family, taken from the property that owns the harness.
    import importlib.util, os, re, copy
    def other(pid):
        sp = importlib.util.spec_from_file_location('c20_' + pid, os.path.join(os.path.dirname(__file__), pid + '.py')); m = importlib.util.module_from_spec(sp); m.Q = Q; sp.loader.exec_module(m); return {q.name: q for q in m.queries()}
    PICK = {'C05': ['copy_assign_c8_quick', 'move_assign_c16_quick', 'allocate_fill_c32_quick'],
            'C06': [r'.*'],
            'C07': ['find_pn_sso_quick', 'find_last_str_sso_quick', 'starts_with_cstr_sso_quick'],
            'C08': [r'.*'],
            'C09': ['split_str_s3_m1_quick', 'tokenize_s3_m1_quick', 'split_cstr_s2_m1_quick', 'replace_s3_f1_t1_quick'],
            'C10': ['apply1_cstr_len2_quick', 'apply1_char_len2_quick'],
            'C11': ['format_string_quick', 'numeric_layout_quick', 'format_type_string_quick', 'char_class_char32', 'int_int_hex', 'int_ushort_oct', 'select_1'],
            'C12': ['from_short_r10', 'from_ullong_r16', 'parse_to_int_quick', 'parse_to_ulong_long_quick', 'agree_short_dec_small'],
            'C14': [r'.*'], 'C15': [r'.*'],
            'C16': ['append_cap8_quick', 'append_char_cap8_quick', 'ins_int_cap8_quick', 'ins_u16_cap8_quick', 'ins_string_cap8_quick', 'to_string_default', 'move_assign_cap8_into8_quick'],
            'C17': ['append_stdio_n3_quick', 'append_ostream_wchar_n3_quick', 'insert_ostream_char16_n3_quick', 'extract_ostream_char_n3_quick', 'append_string_latin1_n3_quick'],
            'C03': [r'conv_.*_m1_quick'],
            'C04': [r'.*']}
    # measured (one core per query, this sandbox): the ones below take 1-20 s each and run in the quick tier; the others (up to 570 s) in the thorough tier only;
    # SKIP: out of memory at 12 GB when doubled (their families are represented by cheaper members)
    QUICK = set('''C03_conv_u16_u32_m1_quick C03_conv_u32_l1_m1_quick C03_conv_u32_u16_m1_quick C03_conv_u32_wc_m1_quick C03_conv_wc_u16_m1_quick C04_clear_quick C04_concat_quick
        C04_copy_then_kill_source_quick C04_move_assign_quick C04_substr_whole_quick C05_allocate_fill_c32_quick C05_copy_assign_c8_quick C05_move_assign_c16_quick C06_bufcmp_obj_c32_quick
        C06_bufcmp_obj_c8_quick C06_bufcmp_obj_wc_quick C06_bufcmp_static_c16_quick C06_bufcmp_static_c32_quick C07_find_pn_sso_quick C07_starts_with_cstr_sso_quick C08_after_last_ch_sso_quick
        C08_before_first_ch_heap_quick C08_left_sso_quick C08_substr1_heap_quick C08_trim_left_heap_quick C08_trim_left_sso_quick C09_tokenize_s3_m1_quick C11_char_class_char32 C11_format_string_quick
        C11_format_type_string_quick C11_select_1 C12_parse_to_int_quick C12_parse_to_ulong_long_quick C12_from_short_r10 C12_from_ullong_r16 C14_b64_seq_n0_quick C14_b64_seq_n1_quick C14_b64_seq_n2_quick
        C14_hex_seq_n1_quick C14_hex_seq_n3_quick C15_b64_throwing_len0_quick C15_b64_to_buffer_len3_quick C15_hex_throwing_len6_quick C15_hex_to_buffer_len0_quick C15_hex_to_buffer_len2_quick
        C15_hex_to_buffer_len5_quick C16_move_assign_cap8_into8_quick C16_append_cap8_quick C16_append_char_cap8_quick C16_ins_int_cap8_quick C16_to_string_default C17_append_stdio_n3_quick
        C17_append_string_latin1_n3_quick C17_extract_ostream_char_n3_quick C17_append_ostream_wchar_n3_quick C17_insert_ostream_char16_n3_quick'''.split())
    SKIP = {'C16_ins_u16_cap8_quick', 'C03_conv_u16_u8_m1_quick', 'C03_conv_wc_u8_m1_quick', 'C03_conv_u32_u8_m1_quick'}
    seen = set()
    for pid, pats in PICK.items():
        qo = other(pid)
        for name, q in qo.items():
            if 'quick' not in q.tiers or not any(re.fullmatch(p, name) for p in pats): continue
            if '%s_%s' % (pid, name) in SKIP: continue
            t = copy.copy(q); t.name = 'twice_%s_%s' % (pid, name); t.twice = True; t.tiers = ('quick', 'thorough') if '%s_%s' % (pid, name) in QUICK else ('thorough',); t.bound = dict(q.bound, harness='%s (%s), run twice' % (pid, name))
            t.timeout = max(q.timeout or 0, 900); t.mem_gb = max(q.mem_gb, 10)
            if t.name not in seen: seen.add(t.name); qs.append(t)
    return qs

# C09 -- split, tokenize and replace partition the text exactly; join inverts split
LEVEL = 'model_checking'
EXPLANATION = ('replace(from,to,cs) (counting scan + copying scan, real code), split(ST::string / const char* / char, max, cs) and tokenize(delims) on subjects of arbitrary bytes (NUL included), arbitrary 64-bit max_splits, both case modes, '
               'against a left-to-right non-overlapping reference scan: pieces equal the bytes between the reference cuts, in order (so joining inverts splitting and there are at most max+1 pieces); replace length = size + k*(|to|-|from|) and content = reference; '
               'empty separator/pattern leaves the text whole; termination = unwinding assertions. std::vector<ST::string> is modelled as a bounded sequence whose elements are built by the real ST::string constructors.')
BOUNDS = {'quick': 'split(ST::string)/split(char)/tokenize: subject 3 bytes, separator / delimiter set 0..2 bytes; split(const char*): 2 bytes; replace: (subject,pattern,replacement) lengths (3,1,1) (2,1,2) (2,1,0) (2,2,1) (3,0,1) (3,2,1); split(ST::string) with subject 4 / separator 3 per case mode (self-overlapping separators)',
          'thorough': 'subject 3 and 4 bytes, pattern 1..2, replacement 0..3 (self-overlapping patterns such as "aa" in "aaa" need 3 bytes); replace (4,3,1) per case mode'}
OUTSIDE = 'longer subjects (replace at 4 bytes: 150-280 s per combination); libstdc++ std::vector growth (modelled); separators longer than 2 bytes'
def L(ns, nm): return [(r'vp_mem(cpy|move)_u8', ns * 2 + 2), (r'vpx_memcmp', nm + 1), (r'vpx_memchr', ns + 1), (r'vpx_strlen', 4), (r'vpx_str', ns + 2)]
def queries():
    qs = []
    SV = dict(config='small', noinline=True, stubs=('_ZNSt6vector', '_ZNKSt6vector'))
    def split_q(nm_, op, ns, nm, tier, ci=None):
        return Q('%s_s%d_m%d%s_%s' % (nm_, ns, nm, '' if ci is None else '_ci%d' % ci, tier), 'C09_split.c', 'split.cpp', defs=dict({'OP': op, 'NS': ns, 'NM': nm}, **({} if ci is None else {'CI': ci})), unwind=ns + 3, hunwind=ns + 5, loops=L(ns, nm), heap_cap=16, object_bits=10, tiers=(tier,),
                 bound={'op': nm_, 'subject': ns, 'separator': nm, 'max_splits': 'any 64-bit'}, timeout=900 if tier == 'quick' else 3000, mem_gb=8, **SV)
    def repl_q(ns, nm, nt, tier, ci=None):
        return Q('replace_s%d_f%d_t%d%s_%s' % (ns, nm, nt, '' if ci is None else '_ci%d' % ci, tier), 'C09_split.c', 'string.cpp', config='small', defs=dict({'OP': 5, 'NS': ns, 'NM': nm, 'NT': nt}, **({} if ci is None else {'CI': ci})), unwind=ns + 3, hunwind=max(2 * ns + 6, ns + 1 + ns * nt + 2), loops=L(ns, nm),
                 heap_cap=max(16, ns + 1 + ns * nt + 2), tiers=(tier,), bound={'op': 'replace', 'subject': ns, 'pattern': nm, 'replacement': nt}, timeout=900 if tier == 'quick' else 3000, mem_gb=10)
    # quick: measured <= 60 s each (3-byte subjects; the 200-370 s combinations run at 2 bytes here and at 3-4 bytes in thorough)
    for op, nm_, seps in ((1, 'split_str', (0, 1, 2)), (3, 'split_ch', (1,)), (4, 'tokenize', (0, 1, 2))):
        for nm in seps: qs.append(split_q(nm_, op, 3, nm, 'quick'))
    qs.append(split_q('split_cstr', 2, 3, 0, 'quick'))
    for nm in (1, 2): qs.append(split_q('split_cstr', 2, 2, nm, 'quick'))
    for ns, nm, nt in ((3, 1, 1), (2, 1, 2), (2, 1, 0), (2, 2, 1), (3, 0, 1), (3, 2, 1)): qs.append(repl_q(ns, nm, nt, 'quick'))   # (3,2,1): 225 s, the smallest case with a self-overlapping pattern
    # a self-overlapping separator whose real occurrence starts inside a failed partial match ("aab" in "aaab") needs subject 4 / separator 3: one query per case mode
    # (the case-sensitive and case-insensitive scanners are separate code)
    for ci in (0, 1):
        qs.append(split_q('split_str', 1, 4, 3, 'quick', ci))
        q = repl_q(4, 3, 1, 'thorough', ci); q.mem_gb = 24; qs.append(q)     # out of memory at 10 GB (81-124 s): thorough only
    for ns in (3, 4):
        for op, nm_, seps in ((1, 'split_str', (1, 2)), (2, 'split_cstr', (1, 2)), (3, 'split_ch', (1,)), (4, 'tokenize', (1, 2))):
            for nm in seps:
                if ns == 3 and not (op == 2): continue
                qs.append(split_q(nm_, op, ns, nm, 'thorough'))
        for nm, nt in ((1, 0), (1, 2), (2, 1), (2, 0), (2, 3)):
            qs.append(repl_q(ns, nm, nt, 'thorough'))
    return qs

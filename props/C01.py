# C01 -- well-formed text transcodes losslessly and to the standard encoding
import importlib.util, os
_s = importlib.util.spec_from_file_location('convcommon', os.path.join(os.path.dirname(__file__), 'convcommon.py')); cc = importlib.util.module_from_spec(_s); _s.loader.exec_module(cc)
LEVEL = 'model_checking'
EXPLANATION = ('(1) per-character kernels write_utf8/write_utf16/utf8_measure/utf16_measure/extract_utf8/extract_utf16 are decided over the FULL domain '
               '(all 1,112,064 scalars, arbitrary trailing units) against the RFC 3629/2781 definitions written independently in the harness; '
               '(2) every public pointer+length conversion (12 pairs + wchar_t aliases) on the standard encoding of K arbitrary scalars, in each validation mode, '
               'equals the standard encoding in the target form (reference encoder); (3) chains X->Y->X return the original units and Latin-1->UTF->Latin-1 is the identity; '
               '(4) ST::string routes (ctor/set/from_*/to_*/operator= for each unit width, char_buffer, std::basic_string, string_view) agree with the free functions.')
BOUNDS = {'quick': 'kernels: all scalars (no sequence bound); sequences: K<=2 scalars (<=8 UTF-8 bytes, <=4 UTF-16 units), Latin-1 <=4 bytes; one query per mode; STL routes (from_std_string overload set, to_std_* members): one or two characters',
          'thorough': 'K<=3 scalars (<=12 UTF-8 bytes), Latin-1 <=8 bytes'}
OUTSIDE = 'sequences longer than K scalars (each loop iteration depends only on the <=4 units at the cursor: argued, not mechanised); std::basic_string objects are built (and read back) by libstdc++ code that is translated along with the library (its allocation goes through the heap model); to_path/from_path (std::filesystem)'

def queries():
    qs = []
    # (1) kernels, full domain
    for k in ('write8', 'write16', 'extract8', 'extract16'):
        qs.append(Q('kernel_%s' % k, 'C01_kernel.c', 'utf.cpp', defs={'KERNEL_' + k.upper(): 1}, unwind=6, bound={'kernel': k, 'domain': 'all Unicode scalar values'}))
    # (2) sequences of scalars of every concrete shape through each pair; the validation mode is symbolic (all three in one query)
    for tier, K in (('quick', 2), ('thorough', 3)):
        for src, dst in cc.PAIRS + cc.WCHAR_PAIRS:
            for shp in cc.shapes(src, K if src != 'l1' else (4 if tier == 'quick' else 8)):
                n = sum(shp)
                # quick tier budget: the wchar_t aliases and the Latin-1 / UTF-16->UTF-8 directions run a representative subset of shapes
                if tier == 'quick' and (src, dst) in (('u8', 'wc'), ('u8', 'l1')) and shp not in ((1, 4), (3, 2), (2, 1), (4, 3)): continue
                if tier == 'quick' and (src, dst) == ('u16', 'u8') and shp not in ((1, 2), (2, 1)): continue
                d = cc.conv_defs(src, dst, n, None, scalars=shp)
                # a Latin-1 target can reject (value >= 0x100) only if the shape admits such a value
                if dst == 'l1' and src == 'u8' and max(shp) < 2: d.pop('EXPECT_THROW', None)
                nm = 'seq_%s_%s_%s_%s' % (src, dst, ''.join(map(str, shp)), tier)
                qs.append(Q(nm, 'conv.c', 'utf.cpp', defs=d, unwind=n + 2, hunwind=max(4 * n + 4, 18), tiers=(tier,),
                            bound={'pair': '%s->%s' % (src, dst), 'shape (encoded length of each scalar)': list(shp), 'mode': 'symbolic: all three'}, timeout=400 if tier == 'quick' else 1500))
    # (3) chains A -> B -> A (implied by (2) in both directions; run on the real composition for selected shapes in quick, all K=2 shapes + selected K=3 in thorough)
    QSH = {'u8': [(4, 1)], 'u16': [(2, 1)], 'u32': [(1, 1)], 'l1': [(1, 1, 1, 1)]}
    TSH = {'u8': cc.shapes('u8', 2) + [(4, 4, 4), (1, 4, 2), (3, 3, 1)], 'u16': cc.shapes('u16', 3), 'u32': [(1, 1, 1)], 'l1': [(1,) * 8]}
    for tier, SH in (('quick', QSH), ('thorough', TSH)):
        for a, b in (('u8', 'u16'), ('u8', 'u32'), ('u16', 'u32'), ('u16', 'u8'), ('u32', 'u8'), ('u32', 'u16'), ('u8', 'wc'), ('u16', 'wc'), ('l1', 'u8'), ('l1', 'u16'), ('l1', 'u32'), ('l1', 'wc')):
            if (b == 'u8' or (a, b) in (('u8', 'wc'), ('u16', 'wc'), ('u8', 'u16'))) and tier == 'quick': continue   # second leg over a symbolic-length UTF-8 intermediate: > 400 s, thorough only (K=1..2)
            for shp in (SH[a] if b != 'u8' else {'u16': [(1,), (2,), (1, 1)], 'u32': [(1,), (1, 1)], 'l1': [(1, 1)]}[a]):
                n = sum(shp)
                qs.append(Q('chain_%s_%s_%s_%s' % (a, b, ''.join(map(str, shp)), tier), 'C01_chain.c', 'utf.cpp',
                            defs={'A': cc.CODE[a], 'B': cc.CODE[b], 'AN': a, 'BN': b, 'N': n, 'SHAPE_K': len(shp), 'SHAPE_LENS': '{' + ','.join(map(str, shp)) + '}'},
                            unwind=n + 2, hunwind=max(4 * n + 4, 18), tiers=(tier,), bound={'chain': '%s->%s->%s' % (a, b, a), 'shape': list(shp), 'modes': 'symbolic, independent per leg'}, timeout=400 if tier == 'quick' else 1500))
    # (4) ST::string routes: into a string from UTF-16/32/wchar_t (members, constructors, buffer and string_view overloads, literal operators), out of a string
    #     (to_utf8/16/32/wchar/latin_1), Latin-1 round trip
    R16 = {1: 'from_utf16', 2: 'ctor_ptr', 3: 'ctor_buffer', 4: 'assign_buffer', 5: 'ctor_string_view', 6: 'literal', 7: 'from_std_u16string_view', 8: 'from_std_u16string'}
    R32 = {1: 'from_utf32', 2: 'ctor_ptr', 3: 'ctor_buffer', 4: 'assign_buffer', 6: 'literal', 7: 'from_wchar', 8: 'from_std_u32string_view', 9: 'from_std_u32string', 10: 'from_std_wstring_view', 11: 'from_std_wstring'}
    for tier, shapes16, shapes32, shapes8 in (('quick', [(1,), (2,)], [(1, 1)], [(2, 4), (3, 1)]), ('thorough', cc.shapes('u16', 2), [(1, 1, 1)], cc.shapes('u8', 2))):
        for shp in shapes16:
            for r, rn in R16.items():
              for mode in ((2,) if tier == 'quick' else (0, 1, 2)):   # a symbolic mode ran out of memory (12 GB) on the UTF-16 -> UTF-8 routes
                # a surrogate pair through a route is 200-360 s and up to 12 GB per query: quick runs it through from_utf16 only (all routes: thorough)
                if tier == 'quick' and shp == (2,) and r != 1: continue
                qs.append(Q('into_u16_%s_%s_m%d_%s' % (rn, ''.join(map(str, shp)), mode, tier), 'C01_routes.c', 'strconv.cpp', config='small', defs={'OP': 1, 'ROUTE': r, 'MODE': mode, 'SHAPE_K': len(shp), 'SHAPE_LENS': '{' + ','.join(map(str, shp)) + '}'},
                            unwind=4 * len(shp) + 6, heap_cap=32, mem_gb=12 if shp == (1,) else 20, tiers=(tier,), bound={'route': rn, 'shape': list(shp), 'mode': mode}, timeout=900 if tier == 'quick' else 2400))
        for shp in shapes32:
            for r, rn in R32.items():
                qs.append(Q('into_u32_%s_%s_%s' % (rn, ''.join(map(str, shp)), tier), 'C01_routes.c', 'strconv.cpp', config='small', defs={'OP': 2, 'ROUTE': r, 'SHAPE_K': len(shp), 'SHAPE_LENS': '{' + ','.join(map(str, shp)) + '}'},
                            unwind=4 * len(shp) + 6, heap_cap=32, tiers=(tier,), bound={'route': rn, 'shape': list(shp), 'mode': 'symbolic'}, timeout=900))
        for shp in ([(2, 4)] if tier == 'quick' else [(3, 1), (4, 4)]):
            qs.append(Q('out_of_string_stl_%s_%s' % (''.join(map(str, shp)), tier), 'C01_routes.c', 'strconv.cpp', config='small', defs={'OP': 3, 'STL_OUT': 1, 'SHAPE_K': len(shp), 'SHAPE_LENS': '{' + ','.join(map(str, shp)) + '}'},
                        unwind=4 * len(shp) + 6, heap_cap=48, mem_gb=12, tiers=(tier,), bound={'routes': 'to_std_string / to_std_u16string / to_std_u32string / to_std_wstring / to_std_string(false)', 'shape': list(shp)}, timeout=900))
        for shp in shapes8:
            qs.append(Q('out_of_string_%s_%s' % (''.join(map(str, shp)), tier), 'C01_routes.c', 'strconv.cpp', config='small', defs={'OP': 3, 'SHAPE_K': len(shp), 'SHAPE_LENS': '{' + ','.join(map(str, shp)) + '}'},
                        unwind=4 * len(shp) + 6, heap_cap=32, tiers=(tier,), bound={'routes': 'to_utf8/16/32/wchar/latin_1', 'shape': list(shp)}, timeout=900))
        # UTF-8 routes: every validation mode must take well-formed text unchanged (one character per query: the repairer path is costly, see C02)
        for shp in cc.shapes('u8', 2 if tier == 'quick' else 3):
            if tier == 'thorough' and shp[-1] != 4 and shp[0] != 4: continue
            qs.append(Q('repairer_identity_%s_%s' % (''.join(map(str, shp)), tier), 'C01_routes.c', 'strconv.cpp', config='small', defs={'OP': 6, 'SHAPE_K': len(shp), 'SHAPE_LENS': '{' + ','.join(map(str, shp)) + '}'},
                        unwind=4 * len(shp) + 6, heap_cap=32, tiers=(tier,), bound={'kernels': 'validate_utf8, cleanup_utf8', 'shape': list(shp)}, timeout=900))
        for shp in ([(4,), (3,), (1,)] if tier == 'quick' else [(2,), (1, 4)]):
            for r, rn in ((1, 'from_utf8'), (2, 'ctor_cbuf'), (3, 'set_cbuf_move'), (4, 'from_std_string_view'), (5, 'from_std_string'), (6, 'ctor_char8_ptr'), (7, 'from_utf8_char8'), (8, 'from_std_u8string_view'), (9, 'from_std_u8string')):
                for mode in (0, 1, 2):
                    if mode == 1 and shp != (1,): continue    # substitute_invalid through ST::string: > 12 GB beyond one byte (DESIGN.md section 1, last row); the repairer itself: repairer_identity_*
                    if tier == 'quick' and r != 1 and mode != 1: continue
                    qs.append(Q('into_u8_%s_%s_m%d_%s' % (rn, ''.join(map(str, shp)), mode, tier), 'C01_routes.c', 'strconv.cpp', config='small', defs={'OP': 5, 'ROUTE': r, 'MODE': mode, 'SHAPE_K': len(shp), 'SHAPE_LENS': '{' + ','.join(map(str, shp)) + '}'},
                                unwind=4 * len(shp) + 10, heap_cap=32, mem_gb=12, tiers=(tier,), bound={'route': rn, 'shape': list(shp), 'mode': mode}, timeout=900))
        k = 3 if tier == 'quick' else 6
        qs.append(Q('latin1_roundtrip_%d_%s' % (k, tier), 'C01_routes.c', 'strconv.cpp', config='small', defs={'OP': 4, 'SHAPE_K': k, 'SHAPE_LENS': '{' + ','.join(['1'] * k) + '}'}, unwind=2 * k + 6, hunwind=4 * k + 8, heap_cap=32, tiers=(tier,), bound={'bytes': k}, timeout=900))
    return qs

# C01 -- well-formed text transcodes losslessly and to the standard encoding
import importlib.util, os
_s = importlib.util.spec_from_file_location('convcommon', os.path.join(os.path.dirname(__file__), 'convcommon.py')); cc = importlib.util.module_from_spec(_s); _s.loader.exec_module(cc)
LEVEL = 'model_checking'
EXPLANATION = ('(1) per-character kernels write_utf8/write_utf16/utf8_measure/utf16_measure/extract_utf8/extract_utf16 are decided over the FULL domain '
               '(all 1,112,064 scalars, arbitrary trailing units) against the RFC 3629/2781 definitions written independently in the harness; '
               '(2) every public pointer+length conversion (12 pairs + wchar_t aliases) on the standard encoding of K arbitrary scalars, in each validation mode, '
               'equals the standard encoding in the target form (reference encoder); (3) chains X->Y->X return the original units and Latin-1->UTF->Latin-1 is the identity; '
               '(4) ST::string routes (ctor/set/from_*/to_*/operator= for each unit width, char_buffer, std::basic_string, string_view) agree with the free functions.')
BOUNDS = {'quick': 'kernels: all scalars (no sequence bound); sequences: K<=2 scalars (<=8 UTF-8 bytes, <=4 UTF-16 units), Latin-1 <=4 bytes; one query per mode',
          'thorough': 'K<=3 scalars (<=12 UTF-8 bytes), Latin-1 <=8 bytes'}
OUTSIDE = 'sequences longer than K scalars (each loop iteration depends only on the <=4 units at the cursor: argued, not mechanised); literal operators and STL overloads are covered through the shims that construct them from pointer+length'

def queries():
    qs = []
    # (1) kernels, full domain
    for k in ('write8', 'write16', 'extract8', 'extract16'):
        qs.append(Q('kernel_%s' % k, 'C01_kernel.c', 'utf.cpp', defs={'KERNEL_' + k.upper(): 1}, unwind=6, bound={'kernel': k, 'domain': 'all Unicode scalar values'}))
    # (2) sequences of scalars of every concrete shape through each pair; the validation mode is symbolic
    for tier, K in (('quick', 2), ('thorough', 3)):
        for src, dst in cc.PAIRS + cc.WCHAR_PAIRS:
            for shp in cc.shapes(src, K if src != 'l1' else (4 if tier == 'quick' else 8)):
                n = sum(shp)
                for mode in ([None] if src == 'l1' else [0, 1, 2]):
                    nm = 'seq_%s_%s_%s_m%s_%s' % (src, dst, ''.join(map(str, shp)), mode, tier)
                    qs.append(Q(nm, 'conv.c', 'utf.cpp', defs=cc.conv_defs(src, dst, n, mode, scalars=shp), unwind=n + 2, hunwind=4 * n + 4, tiers=(tier,),
                                bound={'pair': '%s->%s' % (src, dst), 'shape (encoded length of each scalar)': list(shp), 'mode': mode}, timeout=300 if tier == 'quick' else 1500))
    # (3) chains A -> B -> A
    for tier, K in (('quick', 2), ('thorough', 3)):
        for a, b in (('u8', 'u16'), ('u8', 'u32'), ('u16', 'u32'), ('u16', 'u8'), ('u32', 'u8'), ('u32', 'u16'), ('u8', 'wc'), ('u16', 'wc'), ('l1', 'u8'), ('l1', 'u16'), ('l1', 'u32'), ('l1', 'wc')):
            for shp in cc.shapes(a, K if a != 'l1' else (4 if tier == 'quick' else 8)):
                n = sum(shp)
                qs.append(Q('chain_%s_%s_%s_%s' % (a, b, ''.join(map(str, shp)), tier), 'C01_chain.c', 'utf.cpp',
                            defs={'A': cc.CODE[a], 'B': cc.CODE[b], 'AN': a, 'BN': b, 'N': n, 'SHAPE_K': len(shp), 'SHAPE_LENS': '{' + ','.join(map(str, shp)) + '}'},
                            unwind=n + 2, hunwind=4 * n + 4, tiers=(tier,), bound={'chain': '%s->%s->%s' % (a, b, a), 'shape': list(shp)}, timeout=300 if tier == 'quick' else 1500))
    return qs

# C06 -- comparison is a total order; operators, overloads and hashes agree with it
LEVEL = 'model_checking'
EXPLANATION = ('Real compare code (buffer<T>::compare for char/char16_t/char32_t/wchar_t, compare_cs/compare_ci, ST::string compare family, operators, less_i/equal_i, '
               'hash/hash_i/std::hash, to_upper/to_lower) is executed symbolically on arbitrary contents (all element values incl. 0 and >= 0x80) and compared with the '
               'lexicographic oracle written from the property text. For the static pointer+length form the LENGTHS are free 64-bit variables (only min(len) elements are read), '
               'so differences of 2^31 and more are covered. Antisymmetry, zero-iff-equal, transitivity on triples, overload/operator agreement, hash consistency and case mapping are assertions.')
BOUNDS = {'quick': 'contents <= 3 elements (pairs), <= 2 (triples), lengths/limits: all 64-bit values; both case modes; small-string limit configured to 4 so both storage modes occur',
          'thorough': 'contents <= 5 elements (pairs), <= 3 (triples); hash consistency: <= 2 bytes quick, <= 3 thorough (64-bit multiplier miter)'}
OUTSIDE = 'contents longer than the bound (the compare loops are position-independent: argued, not mechanised); wchar_t elements are ordered as the platform orders wchar_t (signed 32-bit)'
TYPES = [('c8', 'uint8_t', 0), ('c16', 'uint16_t', 0), ('c32', 'uint32_t', 0), ('wc', 'uint32_t', 1)]

def queries():
    qs = []
    for tier, n, n3 in (('quick', 3, 2), ('thorough', 5, 3)):
        for sfx, elem, sg in TYPES:
            esz = {'uint8_t': 1, 'uint16_t': 2, 'uint32_t': 4}[elem]
            qs.append(Q('bufcmp_static_%s_%s' % (sfx, tier), 'C06_cmp.c', 'string.cpp', defs={'OP': 1, 'SFX': sfx, 'ELEM': elem, 'ELEM_SIGNED': sg, 'N': n}, unwind=n + 2, tiers=(tier,),
                        bound={'elements': n, 'lengths': 'any 64-bit', 'type': sfx}))
            qs.append(Q('bufcmp_obj_%s_%s' % (sfx, tier), 'C06_cmp.c', 'string.cpp', config='small', defs={'OP': 2, 'SFX': sfx, 'ELEM': elem, 'ELEM_SIGNED': sg, 'N': n}, unwind=n + 3, tiers=(tier,),
                        bound={'elements': n, 'type': sfx}))
        qs.append(Q('str_pair_%s' % tier, 'C06_cmp.c', 'string.cpp', config='small', defs={'OP': 3, 'N': n}, unwind=max(n + 3, 6), tiers=(tier,), bound={'bytes': n, 'n': 'any 64-bit'}, timeout=600 if tier == 'quick' else 1800))
        qs.append(Q('str_triple_%s' % tier, 'C06_cmp.c', 'string.cpp', config='small', defs={'OP': 4, 'N': n3}, unwind=max(n3 + 3, 6), tiers=(tier,), bound={'bytes': n3}))
        qs.append(Q('str_case_map_%s' % tier, 'C06_cmp.c', 'string.cpp', config='small', defs={'OP': 5, 'N': n}, unwind=max(n + 3, 6), tiers=(tier,), bound={'bytes': n}))
        # 64-bit FNV multiplications: equality of two hash computations is a multiplier miter; measured N=2: minisat 138 s, cadical 34 s, kissat 25 s; N=3 thorough only
        nh = 2 if tier == 'quick' else 3
        qs.append(Q('str_hash_%s' % tier, 'C06_cmp.c', 'string.cpp', config='small', defs={'OP': 5, 'N': nh, 'WITH_HASH': 1}, unwind=max(nh + 3, 6), tiers=(tier,), solver='kissat',
                    bound={'bytes': nh}, timeout=400 if tier == 'quick' else 3000))
    return qs

# C07 -- searching returns exactly the first/last occurrence for any haystack and needle
LEVEL = 'model_checking'
EXPLANATION = ('find / find_last / contains / starts_with / ends_with (real code incl. find_cs/find_ci/compare_ci scanning loops) on an arbitrary haystack (ST::string state, both storage modes) '
               'and an arbitrary needle given in all four forms (char, const char*, (pointer,length) in an exactly-sized object, ST::string; plus the const char8_t* overloads), arbitrary 64-bit start/limit, both case modes, '
               'against the quantified definition (smallest/largest index of a full match inside the permitted range).')
BOUNDS = {'quick': 'haystack <= 4 bytes (find_last: 3), needle <= 2 bytes, all byte values incl. NUL, start/limit: all 64-bit values',
          'thorough': 'haystack <= 6 bytes (find_last: 5), needle <= 3 bytes (covers self-overlapping needles such as "aab" in "aaab")'}
OUTSIDE = 'haystacks longer than 6 bytes (H = 8 gave no verdict in the design probes); trim_right forms a pointer one before the array (benign UB, not reported)'

def queries():
    qs = []
    for tier, H, M in (('quick', 4, 2), ('thorough', 6, 3)):
        FORMS = {1: ['find_pn', 'find_str', 'find_cstr', 'find0_pn', 'find0_str', 'find0_cstr', 'find_ch', 'find0_ch', 'find_null', 'contains_pn', 'contains_str', 'contains_cstr', 'contains_ch'],
                 2: ['find_last_pn', 'find_last_str', 'find_last_cstr', 'find_last0_pn', 'find_last0_str', 'find_last0_cstr', 'find_last_ch', 'find_last0_ch', 'find_last_null'],
                 3: ['starts_with_str', 'ends_with_str', 'starts_with_cstr', 'ends_with_cstr', 'starts_ends_null']}
        for op, forms in FORMS.items():
            for k, nm in enumerate(forms, 1):
                # one library call per query (all 13 overloads in one formula gave no verdict in 600 s).
                # find_last nests three scanning loops (measured 270-430 s at H=4): its haystack bound is one smaller
                h = H - 1 if op == 2 else H
                for heap in ((0, 1) if h >= 4 else (0,)):   # small configuration: heap storage starts at 4 bytes
                  qs.append(Q('%s_%s_%s' % (nm, 'heap' if heap else 'sso', tier), 'C07_find.c', 'string.cpp', config='small', defs={'OP': op, 'FORM': k, 'H': h, 'M': M, 'HAY_HEAP': heap}, unwind=max(h + 3, 6), tiers=(tier,),
                            loops=[(r'^vpx_memcmp\.', M + 1), (r'^match_at\.', M + 1)],
                            bound={'overload': nm, 'haystack': h, 'needle': M, 'start/limit': 'any 64-bit'}, timeout=600 if tier == 'quick' else 3000))
    # the const char8_t* overload family (C++20): one query per overload group, in-object haystack
    for op, k, nm, h in ((1, 14, 'find_char8', 3), (1, 15, 'find0_contains_char8', 3), (2, 10, 'find_last_char8', 3), (2, 11, 'find_last0_char8', 3), (3, 6, 'starts_ends_with_char8', 3)):
        qs.append(Q('%s_sso_quick' % nm, 'C07_find.c', 'string.cpp', config='small', defs={'OP': op, 'FORM': k, 'H': h, 'M': 2, 'HAY_HEAP': 0}, unwind=6, tiers=('quick',),
                    loops=[(r'^vpx_memcmp\.', 3), (r'^match_at\.', 3)], bound={'overload': nm, 'haystack': h, 'needle': 2, 'start/limit': 'any 64-bit'}, timeout=600))
    # self-overlapping needles ("aab" in "aaab") need haystack >= 4 and needle >= 3: one extra quick query per case mode path (find through the (pointer,length) form)
    qs.append(Q('find_pn_overlap_quick', 'C07_find.c', 'string.cpp', config='small', defs={'OP': 1, 'FORM': 1, 'H': 4, 'M': 3, 'HAY_HEAP': 1}, unwind=7, tiers=('quick',),
                loops=[(r'^vpx_memcmp\.', 4), (r'^match_at\.', 4)], bound={'overload': 'find_pn', 'haystack': 4, 'needle': 3}, timeout=600))
    return qs

# C16 -- string_stream content equals the concatenation of everything appended
LEVEL = 'model_checking'
EXPLANATION = ('One inductive step per operation of ST::string_stream (real code incl. expand_buffer) from an ARBITRARY state satisfying the representation invariant Inv, with a shadow byte array as the model: '
               'Inv preserved for every object (incl. moved-from: valid EMPTY stream), bytes [0,size) equal the model, old block released exactly once, destruction leaves no live block, to_string = validated bytes / Latin-1 transcoding. '
               'One step preserving Inv from every Inv-state covers operation sequences of any length.')
BOUNDS = {'quick': 'in-object capacity configured to 8; state capacity in {8, 16} (one query each; 32 in thorough), any size <= capacity, any content; appends <= 12 bytes (crosses two doublings); truncate/erase: any 64-bit argument',
          'thorough': 'appends <= 40 bytes; real configuration (256-byte in-object buffer) for append/append_char with capacity 256/512'}
OUTSIDE = 'libstdc++ std::string internals of the STL overloads (the shim constructs the STL object); floating-point insertion (C13); sizes near SIZE_MAX (m_size + added overflowing)'
OPS = {1: 'append', 2: 'append_cstr', 3: 'append_char', 4: 'truncate', 5: 'erase', 6: 'move_ctor', 7: 'move_assign', 8: 'to_string', 9: 'dtor', 11: 'ins_string', 12: 'ins_cstr', 13: 'ins_char', 14: 'ins_int', 15: 'ins_u16', 16: 'ins_u32', 17: 'ins_stdstring', 18: 'ins_string_view'}
def queries():
    qs = [Q('default_ctor', 'C16_stream.c', 'sstream.cpp', config='small', defs={'OP': 10, 'CAPK': 0, 'A': 1}, unwind=12)]
    for tier, a in (('quick', 12), ('thorough', 40)):
        for op, nm in OPS.items():
            for capk in ((0, 1) if tier == 'quick' else (0, 1, 2)):
                aa = a if op in (1, 2, 3) else (4 if op in (11, 12, 17, 18) else 1)
                if tier == 'quick' and capk == 1 and op in (1, 2, 3): aa = 6          # capacity 16: one doubling in quick (12 bytes: 330 s)
                if tier == 'quick' and capk == 1 and op in (11, 12, 17, 18): continue   # the same append path as op 1; measured 140-250 s
                if tier == 'thorough' and op not in (1, 2, 3, 14, 15, 16) and capk < 2: continue
                if op == 8:
                    # to_string: one validation mode per query, in-object state, size <= 4 (validation + repair + transcoding loops)
                    if capk > 0 or tier != 'quick': continue
                    for mode, mn in ((0, 'assume_valid'), (1, 'substitute'), (2, 'check'), (3, 'latin1'), (4, 'default')):
                        qs.append(Q('to_string_%s' % mn, 'C16_stream.c', 'sstream.cpp', config='small', defs={'OP': 8, 'CAPK': 0, 'A': 1, 'TS_MODE': mode, 'TS_MAXN': 4}, unwind=8, hunwind=40, heap_cap=32, object_bits=10,
                                    tiers=('quick', 'thorough'), bound={'op': 'to_string', 'mode': mn, 'size<=': 4}, timeout=900))
                    continue
                if tier == 'quick' and ((op in (14, 15) and capk > 0) or op == 16): continue   # measured 180-280 s: thorough only
                if op in (9, 13, 14, 15, 16, 17, 18, 12, 11) and capk == 2: continue
                cap = 8 << capk
                if op == 7:
                    for tk in (0, 1):
                        qs.append(Q('%s_cap%d_into%d_%s' % (nm, cap, 8 << tk, tier), 'C16_stream.c', 'sstream.cpp', config='small', defs={'OP': op, 'CAPK': capk, 'TCAPK': tk, 'A': aa}, unwind=cap * 4 + aa + 12,
                                    heap_cap=4 * cap + aa + 16, tiers=(tier,), bound={'op': nm, 'capacity': cap, 'target capacity': 8 << tk}))
                    continue
                big = cap * 4 + aa + 12
                # loops of the translated library code: growth doubles at most log2 steps, copies are model loops (hunwind); the numeric / transcoding /
                # validation loops of the heavier inserters get a tight bound of their own (45 unwindings of a 32-bit division ran out of memory)
                ku = {14: 6, 15: 6, 16: 6, 8: cap + 4}.get(op, big)
                qs.append(Q('%s_cap%d_%s' % (nm, cap, tier), 'C16_stream.c', 'sstream.cpp', config='small', defs={'OP': op, 'CAPK': capk, 'A': aa}, unwind=ku, hunwind=big,
                            heap_cap=max(4 * cap, 64 if aa > 12 else 32), object_bits=10, tiers=(tier,), bound={'op': nm, 'capacity': cap, 'appended<=': aa}, timeout=900 if tier == 'quick' else 3000))
    # the remaining text inserters (capacity 8): char8_t*, u8string_view, u16string_view / u16string, u32string_view / u32string, wchar_t*, wstring_view / wstring
    for nm, op, extra, tiers in (('ins_char8_cstr', 12, {'CHAR8_FORM': 1}, ('quick', 'thorough')), ('ins_u8string_view', 18, {'CHAR8_FORM': 1}, ('quick', 'thorough')),
                                 ('ins_u16string_view', 15, {'WIDE_FORM': 1}, ('thorough',)), ('ins_u16string', 15, {'WIDE_FORM': 2}, ('quick', 'thorough')),
                                 ('ins_u32string_view', 16, {'WIDE_FORM': 1}, ('thorough',)), ('ins_u32string', 16, {'WIDE_FORM': 2}, ('quick', 'thorough')),
                                 ('ins_wchar_cstr', 16, {'WIDE_FORM': 3}, ('thorough',)), ('ins_wstring_view', 16, {'WIDE_FORM': 4}, ('thorough',)), ('ins_wstring', 16, {'WIDE_FORM': 5}, ('quick', 'thorough'))):
        aa = 4 if op in (12, 18) else 1
        d = {'OP': op, 'CAPK': 0, 'A': aa}; d.update(extra)
        qs.append(Q('%s_cap8' % nm, 'C16_stream.c', 'sstream.cpp', config='small', defs=d, unwind={15: 6, 16: 6}.get(op, 8 * 4 + aa + 12), hunwind=8 * 4 + aa + 12, heap_cap=32, object_bits=10, tiers=tiers,
                    bound={'op': nm, 'capacity': 8}, timeout=900 if 'quick' in tiers else 3000))
    # growth under a failing allocation (the fault quantifier proper is C19; these two queries keep the growth path of this property honest about it)
    for op, nm in ((1, 'append'), (3, 'append_char')):
        qs.append(Q('%s_cap8_alloc_failure' % nm, 'C16_stream.c', 'sstream.cpp', config='small', defs={'OP': op, 'CAPK': 0, 'A': 12, 'FAULT': 2}, unwind=56, hunwind=56, heap_cap=32, object_bits=10,
                    bound={'op': nm, 'capacity': 8, 'appended<=': 12, 'failing allocation': 'the growth'}, timeout=900))
    return qs

# C08 -- slicing returns the clamped byte range for every position, count and separator
LEVEL = 'model_checking'
EXPLANATION = ('substr/left/right on an arbitrary string with start ranging over ALL int64 and count/n over ALL uint64 values (the clamp arithmetic is loop-free, so the full 2^128 domain is one query); '
               'trim_left/trim_right/trim with an arbitrary character set; before_first/after_first/before_last/after_last with separators in the char, const char* and ST::string forms, both case modes; '
               'each result is compared with the byte range computed by a wrap-free reference, must own its own exactly-sized storage, the source must be untouched, and no allocation request may exceed the block capacity '
               '(asserted, not assumed).')
BOUNDS = {'quick': 'strings <= 5 bytes (small-string limit configured to 4: both storage modes), separators / character sets <= 2 bytes, start/count/n: all 64-bit values',
          'thorough': 'strings <= 7 bytes, same'}
OUTSIDE = 'strings longer than the bound; character sets and separators longer than 2 bytes'

def queries():
    qs = []
    for tier, S in (('quick', 5), ('thorough', 7)):
        u = S + 3
        cap = 16
        for heap in (0, 1):
            hs = 'heap' if heap else 'sso'
            for form, nm in ((1, 'substr2'), (2, 'substr1')):
                qs.append(Q('%s_%s_%s' % (nm, hs, tier), 'C08_slice.c', 'string.cpp', config='small', defs={'OP': 1, 'FORM': form, 'MAXS': S, 'SRC_HEAP': heap}, unwind=u, heap_cap=cap, tiers=(tier,),
                            bound={'op': nm, 'size': S, 'start': 'any int64', 'count': 'any uint64', 'source storage': hs}))
            for form, nm in ((1, 'left'), (2, 'right')):
                qs.append(Q('%s_%s_%s' % (nm, hs, tier), 'C08_slice.c', 'string.cpp', config='small', defs={'OP': 2, 'FORM': form, 'MAXS': S, 'SRC_HEAP': heap}, unwind=u, heap_cap=cap, tiers=(tier,),
                            bound={'op': nm, 'size': S, 'n': 'any uint64', 'source storage': hs}))
            for form, nm in ((1, 'trim_left'), (2, 'trim_right'), (3, 'trim'), (4, 'trim_default')):
                qs.append(Q('%s_%s_%s' % (nm, hs, tier), 'C08_slice.c', 'string.cpp', config='small', defs={'OP': 3, 'FORM': form, 'MAXS': S, 'M': 2, 'SRC_HEAP': heap}, unwind=u, heap_cap=cap, tiers=(tier,),
                            bound={'op': nm, 'size': S, 'charset': 2, 'source storage': hs}))
            for which, wn in ((1, 'before_first'), (2, 'after_first'), (3, 'before_last'), (4, 'after_last')):
                for form, fn in ((1, 'ch'), (2, 'cstr'), (3, 'str')):
                    # the last-occurrence forms nest three scanning loops (see C07): one byte less in quick
                    s2 = (3 if form >= 2 else S - 1) if which >= 3 and tier == 'quick' else S   # find_last with a multi-byte needle: 90-200 s at 4 bytes
                    if heap and s2 < 4: continue
                    qs.append(Q('%s_%s_%s_%s' % (wn, fn, hs, tier), 'C08_slice.c', 'string.cpp', config='small', defs={'OP': 4, 'WHICH': which, 'FORM': form, 'MAXS': s2, 'M': 2, 'SRC_HEAP': heap},
                                unwind=max(s2 + 3, 6), heap_cap=cap, tiers=(tier,), loops=[(r'^vpx_memcmp\.', 3), (r'^match_at\.', 3)],
                                bound={'op': wn, 'separator form': fn, 'size': s2, 'separator': 2, 'source storage': hs}, timeout=900 if tier == 'quick' else 3000))
    return qs

# C17 -- all output sinks emit the same bytes for the same format call
LEVEL = 'model_checking'
EXPLANATION = ('All sinks plug into one driver that never observes the sink (append/append_char return *this, ignored; C10/C11 decide what the driver emits). Byte-identical output therefore reduces to: for ARBITRARY (data, size) '
               'each sink\'s append() hands exactly those bytes -- or, for wchar_t/char16_t/char32_t streams, exactly their UTF-16/32 transcoding under the default validation -- to its stream, and for ARBITRARY (ch, count) append_char() '
               'hands over exactly count copies; the string sink (ST::format) stores the same bytes and its Latin-1 variant (ST::format_latin_1) the Latin-1->UTF-8 transcoding; inserting an ST::string into a basic_ostream hands over exactly '
               'its contents transcoded to the stream\'s character type; extracting from a basic_istream stores exactly the token the stream\'s std::basic_string extraction produced (arbitrary non-whitespace units incl. NUL and malformed sequences), transcoded to UTF-8, or throws ST::unicode_error exactly for a malformed token (default validation) leaving the target unchanged. fwrite/fputc/ostream::write/put/operator<<(basic_string) and std::basic_string are ENVIRONMENT: modelled as logs; native replay uses real open_memstream / ostringstream objects.')
BOUNDS = {'quick': 'chunks of 3 arbitrary bytes (all values, so malformed UTF-8 is included), pad count <= 3 (<= 33 for the FILE*, ostream<char>, ostream<wchar_t> and string sinks), ASCII pad character; strings of 3 bytes for insertion; entry points printf/writef on x{}y with a 2-byte ASCII argument; extraction: tokens of 1..3 units (all four stream character types at 3, char and char16_t at 1..2)', 'thorough': 'chunks of 4..5 bytes; extraction: tokens of 4 units'}
OUTSIDE = 'libstdc++ stream machinery (sentry, locale, width handling, whitespace skipping and token delimiting of operator>>(istream&, basic_string&): the token is an arbitrary environment value), transcode(a)+transcode(b) == transcode(a+b) for chunks that split a character (the driver only splits at field boundaries)'
ST = ('_ZNSo', '_ZNSt13basic_ostream', '_ZStls', '_ZNSt7__cxx1112basic_string', '_ZNKSt7__cxx1112basic_string', '_ZSt16__ostream_insert', '_ZNSaI', '_ZNSt9basic_ios', '_ZNKSt9basic_ios', '_ZNSt8ios_base', '_ZStrs', '_ZNSi', '_ZNSt13basic_istream')
SINKS = {1: 'stdio', 2: 'ostream_char', 3: 'ostream_wchar', 4: 'ostream_char16', 5: 'ostream_char32', 6: 'string', 7: 'string_latin1'}
def queries():
    qs = []
    for tier, ns in (('quick', (3,)), ('thorough', (4, 5))):
        for n in ns:
            for sk, nm in SINKS.items():
                qs.append(Q('append_%s_n%d_%s' % (nm, n, tier), 'C17_sinks.c', 'sinks.cpp', config='small', noinline=True, stubs=ST, defs={'SINK': sk, 'OP': 1, 'N': n}, unwind=n + 4, hunwind=(2 * n if sk == 7 else n) + 8, heap_cap=max(4 * n + 8, 32), object_bits=10,
                            tiers=(tier,), bound={'sink': nm, 'chunk bytes': n, 'pad count<=': 3}, timeout=900 if tier == 'quick' else 3000, mem_gb=8))
            for sk in (2, 3, 4, 5):
                qs.append(Q('insert_%s_n%d_%s' % (SINKS[sk], n, tier), 'C17_sinks.c', 'sinks.cpp', config='small', noinline=True, stubs=ST, defs={'SINK': sk, 'OP': 2, 'N': n}, unwind=n + 4, hunwind=n + 8, heap_cap=max(4 * n + 8, 32), object_bits=10,
                            tiers=(tier,), bound={'stream': SINKS[sk], 'string bytes': n}, timeout=900 if tier == 'quick' else 3000, mem_gb=8))
    # extraction: operator>>(basic_istream<CT>&, ST::string&) for the four character types; the stream-side std::basic_string extraction is environment
    for tier, ns in (('quick', (1, 2, 3)), ('thorough', (4,))):
        for n in ns:
            for sk in (2, 3, 4, 5):
                if tier == 'quick' and n < 3 and sk in (3, 5): continue
                qs.append(Q('extract_%s_n%d_%s' % (SINKS[sk], n, tier), 'C17_sinks.c', 'sinks.cpp', config='small', noinline=True, stubs=ST, defs={'SINK': sk, 'OP': 3, 'N': n}, unwind=4 * n + 6, hunwind=4 * n + 8, heap_cap=max(4 * n + 8, 32), object_bits=10,
                            tiers=(tier,), bound={'stream': SINKS[sk], 'token units': n, 'previous value of the target': '<= 5 bytes'}, timeout=900 if tier == 'quick' else 3000, mem_gb=8))
    # the entry points themselves (ST::printf / ST::writef with one argument): writer construction + driver + sink, end to end
    for sk in (1, 2, 4):      # the string sinks (ST::format / format_latin_1) through the growing string_stream: no verdict in 900 s; their parts are C16 (stream) and C10/C11 (driver)
        qs.append(Q('entry_%s' % SINKS[sk], 'C17_sinks.c', 'sinks.cpp', config='small', noinline=True, stubs=ST, models=('core', 'libc', 'strtol'), defs={'SINK': sk, 'OP': 4, 'N': 2, 'CMAX': 4}, unwind=12, hunwind=16, heap_cap=48, object_bits=10,
                    bound={'entry': SINKS[sk], 'format': 'x{}y', 'argument': '2 ASCII bytes'}, timeout=900, mem_gb=10))
    # long runs of padding (append_char with a count up to 33: block-wise implementations go wrong at multiples of their block size)
    for sk in (1, 2, 3, 6):
        qs.append(Q('pad_run_%s' % SINKS[sk], 'C17_sinks.c', 'sinks.cpp', config='small', noinline=True, stubs=ST, defs={'SINK': sk, 'OP': 1, 'N': 1, 'CMAX': 33}, unwind=36, hunwind=40, heap_cap=192, object_bits=10,
                    bound={'sink': SINKS[sk], 'chunk bytes': 1, 'pad count<=': 33}, timeout=900, mem_gb=8))
    return qs

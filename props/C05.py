# C05 -- buffers keep size, content, terminator and exclusive ownership over any history
LEVEL = 'model_checking'
EXPLANATION = ('One inductive step per operation of ST::buffer<T> (real code, clang IR -> C -> CBMC) from an arbitrary pair of '
               'buffers satisfying the representation invariant Inv; Inv of every object (incl. moved-from), value of the target, '
               'no shared block, and destruction of everything by the real destructor with a live-block counter == 0.')
BOUNDS = {'quick': 'sizes 0..L+2 for each of char, char16_t, char32_t, wchar_t (L = 16,16,12,12); all element values; 13 operations',
          'thorough': 'sizes 0..2L+2, same operations and types'}
OUTSIDE = 'buffers longer than the bound (the code has no size-dependent branch other than size >= L); histories only through the inductive invariant'

TYPES = [('c8', 'uint8_t', 16), ('c16', 'uint16_t', 16), ('c32', 'uint32_t', 12), ('wc', 'uint32_t', 12)]
OPS = {1: 'copy_ctor', 2: 'move_ctor', 3: 'ptr_ctor', 4: 'fill_ctor', 5: 'clear', 6: 'copy_assign', 7: 'move_assign',
       8: 'self_copy_assign', 9: 'self_move_assign', 10: 'allocate', 11: 'allocate_fill', 12: 'dtor', 13: 'default_ctor'}

def queries():
    qs = []
    for sfx, elem, L in TYPES:
        for op, name in OPS.items():
            for tier, maxs in (('quick', L + 2), ('thorough', 2 * L + 2)):
                qs.append(Q('%s_%s_%s' % (name, sfx, tier), 'C05_buf.c', 'buffer.cpp',
                            defs={'SFX': sfx, 'ELEM': elem, 'L': L, 'MAXS': maxs, 'OP': op}, unwind=maxs + 3, heap_cap=(maxs + 1) * {'uint8_t': 1, 'uint16_t': 2, 'uint32_t': 4}[elem] + 8,
                            tiers=(tier,), bound={'max_size': maxs, 'type': sfx, 'op': name}))
    return qs

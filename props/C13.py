# C13 -- floating-point text equals the C library rendering for every value and precision
LEVEL = 'model_checking'
EXPLANATION = ('The C library rendering itself cannot be encoded (snprintf/strtod bodies, FP arithmetic): it is a CONTRACT STUB that returns an arbitrary rendering of arbitrary length L up to the documented maximum of the conversion. '
               'Decided for the real library code: the printf format handed over is exactly %[+][.P]{g,f,e,E} (resp. %<letter>), the value is bit-identical (float widened exactly), and for EVERY L the call neither aborts nor writes outside its '
               'buffers and the output is the rendering padded to the width on the correct side -- "however long that rendering is" becomes a quantifier over L. from_float/from_double reject other letters with bad_format; to_float/to_double '
               'flags follow the strtod/strtof end position. Native replay uses the real C library, i.e. compares against printf on this platform.')
BOUNDS = {'quick': 'format_type: L <= 80 (crosses the 64-byte stack buffer), width <= 8, precision: all negatives and 0..99; from_double/from_float: every L <= 47 with any letter, plus L = 316 and 317 (the maximum of %f for double) as concrete-length queries; value: all bit patterns (passed through)',
          'thorough': 'precision 0..9999, width <= 16'}
OUTSIDE = 'that glibc renders the right digits; FP arithmetic; long double; precisions above the bound (the precision digits come from a 32-bit decimal division loop)'
def queries():
    qs = []
    M = ('core', 'libc', 'snprintf', 'strtostub')
    for tier, pmax, w in (('quick', 99, 8), ('thorough', 9999, 16)):
        for flt in (0, 1):
            nm = 'float' if flt else 'double'
            qs.append(Q('format_type_%s_%s' % (nm, tier), 'C13_float.c', 'format.cpp', defs={'OP': 1, 'FLT': flt, 'W': w, 'LMAX': 80, 'PMAX': pmax, 'VP_RENDER_MAX': 80}, models=M, unwind=100, heap_cap=96, tiers=(tier,),
                        bound={'rendering length': '1..80', 'width<=': w, 'precision': '<= %d' % pmax}, timeout=900 if tier == 'quick' else 3000))
    for flt, lmax in ((0, 317), (1, 47)):
        nm = 'float' if flt else 'double'
        # arbitrary letter and arbitrary length up to 47; the extreme lengths of %f for double (a 317-byte symbolic rendering ran the SAT back end out of memory) as two concrete-length queries
        qs.append(Q('from_%s' % nm, 'C13_float.c', 'numeric.cpp', config='small', defs={'OP': 2, 'FLT': flt, 'LMAX': 47, 'VP_RENDER_MAX': 47}, models=M, unwind=47 + 12, heap_cap=56, bound={'rendering length': '1..47', 'letter': 'any byte'}, timeout=900))
        if not flt:
            for lf in (316, 317):
                qs.append(Q('from_double_len%d' % lf, 'C13_float.c', 'numeric.cpp', config='small', defs={'OP': 2, 'FLT': 0, 'LMAX': 317, 'VP_RENDER_MAX': 317, 'LFIX': lf}, models=M, unwind=317 + 12, heap_cap=328, bound={'rendering length': lf, 'letter': 'f'}, timeout=900))
        qs.append(Q('stream_%s' % nm, 'C13_float.c', 'numeric.cpp', config='small', defs={'OP': 3, 'FLT': flt, 'LMAX': 24, 'VP_RENDER_MAX': 24}, models=M, unwind=40, heap_cap=64, bound={'rendering length': '1..24 (%g)'}, timeout=900))
        qs.append(Q('to_%s' % nm, 'C13_float.c', 'numeric.cpp', config='small', defs={'OP': 4, 'FLT': flt, 'LMAX': 5}, models=M, unwind=12, heap_cap=16, bound={'text bytes': 6, 'stub': 'arbitrary value and end position'}))
    return qs

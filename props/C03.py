# C03 -- conversions are total and memory-safe on arbitrary input
import importlib.util, os
_s = importlib.util.spec_from_file_location('convcommon', os.path.join(os.path.dirname(__file__), 'convcommon.py')); cc = importlib.util.module_from_spec(_s); _s.loader.exec_module(cc)
LEVEL = 'model_checking'
EXPLANATION = ('Every public pointer+length conversion (12 source/target pairs + the wchar_t aliases) is executed symbolically on an '
               'arbitrary unit sequence held in an exactly-sized heap object, in every validation mode, and compared with an independent '
               'reference transcoder: no access outside the input or the result (CBMC bounds/pointer checks), the only exception is '
               'ST::unicode_error, no ST_ASSERT/abort is reachable, result satisfies the buffer invariant with size == reference size and '
               'identical units, nothing leaks (also on the throwing path).')
BOUNDS = {'quick': 'all unit sequences of length <= 4 (UTF-8/Latin-1), <= 3 (UTF-16), <= 2 (UTF-32/wchar_t), incl. (NULL,0); one query per mode',
          'thorough': 'length <= 6 (UTF-8/Latin-1), <= 4 (UTF-16), <= 3 (UTF-32/wchar_t)'}
OUTSIDE = 'longer inputs, in particular the 256 Mi size assertion itself (unreachable inside the bound); iteration-independence of the loops is argued, not mechanised'
NQ = {'u8': 4, 'l1': 4, 'u16': 3, 'u32': 2, 'wc': 2}
NT = {'u8': 6, 'l1': 6, 'u16': 4, 'u32': 3, 'wc': 3}

def queries():
    qs = []
    for tier, NN in (('quick', NQ), ('thorough', NT)):
        for src, dst in cc.PAIRS + cc.WCHAR_PAIRS:
            n = NN[src]
            modes = [None] if src == 'l1' else [0, 1, 2]
            for mode in modes:
                nm = 'conv_%s_%s_%s_%s' % (src, dst, 'm%d' % mode if mode is not None else 'any', tier)
                qs.append(Q(nm, 'conv.c', 'utf.cpp', mem_gb=12, defs=cc.conv_defs(src, dst, n, mode, relax_identity=True), unwind=n + 2, hunwind=4 * n + 4, tiers=(tier,),
                            bound={'pair': '%s->%s' % (src, dst), 'max_units': n, 'mode': mode},
                            timeout=300 if tier == 'quick' else 1500))
    return qs

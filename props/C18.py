# C18 -- a failed operation leaves its target and its arguments unchanged
LEVEL = 'model_checking'
EXPLANATION = ('Every throwing entry point that has a target or an rvalue argument -- the constructors string(char_buffer&& / const char_buffer&, mode), set(char_buffer lvalue/rvalue, mode), operator=(char_buffer lvalue/rvalue / const char* / utf16_buffer / utf32_buffer), set(ptr,n,mode), operator+=(const char*), '
               'operator+=(char32_t), string + char32_t, string_stream << char16_t* / char32_t* -- runs from an ARBITRARY valid target state (both storage modes) on ARBITRARY data; when an exception is pending afterwards it is ST::unicode_error, '
               'the target keeps its bytes, size and data pointer, the (lvalue or rvalue) argument still holds its value, all invariants hold and destroying everything leaves no live block. The throwing path is a reachability witness. '
               'Decoders (codec_error) and the format parser (bad_format / out_of_range) build a fresh result: their no-leak-on-throw clause is asserted in C15 and C10.')
BOUNDS = {'quick': 'target <= 5 bytes (small-string limit 4), argument of 2 units (3 for UTF-8 through char_buffer), every validation mode; constructors string(char_buffer&& / const char_buffer&) under check_validity with 3-byte arguments', 'thorough': 'arguments of 3..4 units'}
OUTSIDE = 'longer arguments; ST::format with an rvalue argument (std::function takes its arguments by value: moved-from by design)'
OPS = {1: 'set_cbuf', 2: 'set_cbuf_move', 3: 'assign_cbuf', 4: 'assign_cbuf_move', 5: 'set_ptr', 6: 'assign_cstr', 7: 'assign_u16buf', 8: 'assign_u32buf', 9: 'append_c32', 10: 'append_cstr', 11: 'concat_c32', 12: 'stream_u16', 13: 'stream_u32', 14: 'ctor_cbuf_move', 15: 'ctor_cbuf'}
def queries():
    qs = []
    for tier, nas in (('quick', (2,)), ('thorough', (3, 4))):
        for op, nm in OPS.items():
            for na in nas:
                n = na + 1 if (op in (1, 2, 3, 4, 14, 15) and tier == 'quick') else na
                if op in (9, 11) and na != nas[0]: continue
                if op >= 14:
                    for mode in (2,):     # check_validity is the throwing mode; substitute_invalid never throws and is > 20 GB through a constructor beyond one byte (C02 covers it at kernel level)
                        qs.append(Q('%s_m%d_n%d_%s' % (nm, mode, n, tier), 'C18_fail.c', 'strconv.cpp', config='small', defs={'OP': op, 'NA': n, 'TMAX': 5, 'MODE': mode}, unwind=3 * n + 8, hunwind=3 * n + 12, heap_cap=max(4 * n + 12, 24), object_bits=10, tiers=(tier,),
                                    bound={'op': nm, 'argument units': n, 'mode': mode}, timeout=900 if tier == 'quick' else 3000, mem_gb=12))
                    continue
                qs.append(Q('%s_n%d_%s' % (nm, n, tier), 'C18_fail.c', 'strconv.cpp', config='small', defs={'OP': op, 'NA': n, 'TMAX': 5}, unwind=(n + 3 if op >= 12 else 3 * n + 8), hunwind=3 * n + 12, heap_cap=max(4 * n + 12, 24), object_bits=10, tiers=(tier,),
                            bound={'op': nm, 'argument units': n, 'target<=': 5}, timeout=900 if tier == 'quick' else 3000, mem_gb=8 if op < 14 else 20))
    # raw-UTF-8 routes at the small-string limit (4 in this configuration): a path that treats long input differently (e.g. releases the target first) shows only there
    for op in (5, 6):
        qs.append(Q('%s_n4_quick' % OPS[op], 'C18_fail.c', 'strconv.cpp', config='small', defs={'OP': op, 'NA': 4, 'TMAX': 5}, unwind=20, hunwind=24, heap_cap=32, object_bits=10, tiers=('quick',),
                    bound={'op': OPS[op], 'argument units': 4, 'target<=': 5}, timeout=900, mem_gb=8))
    return qs

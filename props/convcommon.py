# shared description of the conversion pairs (used by C01, C02, C03)
CODE = {'u8': 1, 'u16': 2, 'u32': 3, 'l1': 4, 'wc': 5}
PAIRS = [('u8', 'u16'), ('u8', 'u32'), ('u8', 'l1'), ('u16', 'u8'), ('u16', 'u32'), ('u16', 'l1'),
         ('u32', 'u8'), ('u32', 'u16'), ('u32', 'l1'), ('l1', 'u8'), ('l1', 'u16'), ('l1', 'u32')]
WCHAR_PAIRS = [('u8', 'wc'), ('wc', 'u8'), ('u16', 'wc'), ('wc', 'u16'), ('u32', 'wc'), ('wc', 'u32'), ('l1', 'wc'), ('wc', 'l1')]

IDENTITY = {('u32', 'wc'), ('wc', 'u32')}

def conv_defs(src, dst, n, mode=None, scalars=None, relax_identity=False):
    d = {'SRC': CODE[src], 'DST': CODE[dst], 'SRCN': src, 'DSTN': dst, 'N': n}
    if mode is not None: d['MODE'] = mode
    if scalars is not None:
        # scalars: tuple of encoded lengths (concrete shape), see harness/scalar_seq.h
        d['SCALARS'] = 1; d['SHAPE_K'] = len(scalars); d['SHAPE_LENS'] = '{' + ','.join(str(x) for x in scalars) + '}' if scalars else '{0}'
    if src != 'l1' and ((scalars is None and mode in (None, 2)) or dst == 'l1') and (src, dst) not in IDENTITY:
        d['EXPECT_THROW'] = 1
    if relax_identity and (src, dst) in IDENTITY: d['IDENTITY_ALIAS'] = 1
    return d

import itertools
def shapes(src, k):
    """all concrete shapes (encoded length per scalar) of k scalars in source form src"""
    lens = {'u8': (1, 2, 3, 4), 'u16': (1, 2), 'u32': (1,), 'wc': (1,), 'l1': (1,)}[src]
    return list(itertools.product(lens, repeat=k))

# C12 -- integer to text to integer is exact for every value, width and base
LEVEL = 'model_checking'
EXPLANATION = ('Digit generation (uint_formatter, mini_format_int_s/u behind from_int/from_uint) is decided for ALL values of the 8- and 16-bit types for every radix 2..36 and both cases (one constant radix per query), and at full '
               '32/64-bit width for the radices that need no division (2, 4, 8, 16, 32): digits valid for radix and case, no leading zeros, Horner evaluation equals the value, "-" exactly for negatives incl. the most negative value. '
               'The translator turns signed-overflow (nsw) and llvm.abs(INT_MIN) poison into assertions (ub=True), so the unsigned-negation idiom is checked for UB. from_int, ST::format and string_stream are compared character by character. '
               'The parsing direction runs to_* against a CONTRACT STUB of the strto* family (arbitrary value, arbitrary end position): value narrowing, ok, full_match, base forwarding; the 16-bit round trip uses a glibc-faithful strtol model instead.')
BOUNDS = {'quick': '8/16-bit: all values, radices {2,3,7,8,10,16,36}; 32/64-bit: all values, radices {2,16}; radix 10 at 32/64 bits: windows of 2^16 values at 0, the top of the type, 2^(bits-1) and around every power of ten; cross-printer agreement: all 16-bit values (hex/oct/bin), decimal |v| <= 999; parsing: text <= 6 bytes; round trip: all shorts, bases {2,10,16,36}; int / long long round trip through the strtol model in bases 10 and 16 on the same windows',
          'thorough': 'every radix 2..36 and case for 8/16-bit; radices {2,4,8,16,32} for 32/64-bit; radix 10 windows of 2^20 values, radices 3/7/36 windows of 2^16 values around every power of the radix; decimal cross-printer agreement for all 16-bit values; round trip for every base'}
OUTSIDE = 'decimal and other non-power-of-two radices on 32/64-bit values OUTSIDE the windows (whole domain: no verdict on any back end, SAT or SMT, in 900 s); the bodies of the C library strto* functions (contract stub); base 0 prefix detection'
import math
def dg(bits, radix): return int(math.ceil(bits / math.log2(radix)))
def queries():
    qs = []
    # (1) digit generator, one constant radix per query
    for ut, bits in (('u8', 8), ('u16', 16)):
        for radix in range(2, 37):
            for upper in ((0, 1) if radix > 10 else (0,)):
                quick = radix in (2, 3, 7, 8, 10, 16, 36) and (ut == 'u16' or radix in (10, 16))
                qs.append(Q('uintfmt_%s_r%d%s' % (ut, radix, 'U' if upper else ''), 'C12_int.c', 'numeric.cpp', defs={'OP': 1, 'UT': ut, 'BITS': bits, 'RADIX': radix, 'UPPER': upper, 'DIGITS': dg(bits, radix)}, ub=True,
                            unwind=dg(bits, radix) + 3, tiers=('quick', 'thorough') if quick else ('thorough',), bound={'type': ut, 'radix': radix, 'values': 'all 2^%d' % bits}, timeout=600))
    for ut, bits in (('u32', 32), ('u64', 64)):
        for radix in (2, 4, 8, 16, 32):
            quick = radix in (2, 16)
            qs.append(Q('uintfmt_%s_r%d' % (ut, radix), 'C12_int.c', 'numeric.cpp', defs={'OP': 1, 'UT': ut, 'BITS': bits, 'RADIX': radix, 'UPPER': 0, 'DIGITS': dg(bits, radix)}, ub=True,
                        unwind=dg(bits, radix) + 3, tiers=('quick', 'thorough') if quick else ('thorough',), bound={'type': ut, 'radix': radix, 'values': 'all 2^%d' % bits}, timeout=900))
    # (1b) non-power-of-two radices at 32/64 bits: the whole domain gives no verdict on any back end (chained divisions), windows of 2^16 (quick) / 2^20
    #      (thorough) consecutive values do in seconds.  Windows sit where digit generation can go wrong: zero upwards, the top of the type, the sign
    #      boundary 2^(bits-1), and both sides of EVERY power of the radix (where the digit count changes).
    def windows(bits, radix, w):
        mx = (1 << bits) - 1; ws = [('low', 0, (1 << (w + 1)) - 1), ('top', mx - (1 << (w + 1)) + 1, mx), ('sign', (1 << (bits - 1)) - (1 << w), (1 << (bits - 1)) + (1 << w) - 1)]
        k = 1
        while radix ** k <= mx:
            lo, hi = max(0, radix ** k - (1 << w)), min(mx, radix ** k + (1 << w) - 1)
            if lo > ws[0][2]: ws.append(('p%d' % k, lo, hi))
            k += 1
        return ws
    for ut, bits in (('u32', 32), ('u64', 64)):
        for radix, tiers_w in ((10, (('quick', 15), ('thorough', 19))), (3, (('thorough', 15),)), (7, (('thorough', 15),)), (36, (('thorough', 15),))):
            d = dg(bits, radix)
            for tier, w in tiers_w:
                for wn, lo, hi in windows(bits, radix, w):
                    qs.append(Q('uintfmt_%s_r%d_win_%s_w%d' % (ut, radix, wn, w + 1), 'C12_int.c', 'numeric.cpp', defs={'OP': 1, 'UT': ut, 'BITS': bits, 'RADIX': radix, 'UPPER': 0, 'DIGITS': d, 'VLO': '%dULL' % lo, 'VHI': '%dULL' % hi}, ub=True,
                                unwind=d + 3, tiers=(tier,), bound={'type': ut, 'radix': radix, 'values': '[%d, %d]' % (lo, hi)}, timeout=600 if tier == 'quick' else 1800))
    # (2) from_int / from_uint
    FT = [('short', 16, 1), ('ushort', 16, 0), ('int', 32, 1), ('uint', 32, 0), ('long', 64, 1), ('ulong', 64, 0), ('llong', 64, 1), ('ullong', 64, 0)]
    for ft, bits, sg in FT:
        radices = [(10, 0), (16, 0), (16, 1), (2, 0), (36, 1), (7, 0)] if bits == 16 else [(16, 0), (2, 0), (8, 0), (32, 1)]
        for radix, upper in radices:
            quick = (bits == 16 and radix in (10, 16)) or (bits > 16 and radix == 16 and ft in ('int', 'llong', 'ullong'))
            d = dg(bits, radix)
            qs.append(Q('from_%s_r%d%s' % (ft, radix, 'U' if upper else ''), 'C12_int.c', 'numeric.cpp', config='small', defs={'OP': 2, 'FT': ft, 'BITS': bits, 'SIGNED': sg, 'RADIX': radix, 'UPPER': upper, 'DIGITS': d}, ub=True,
                        unwind=d + 5, heap_cap=d + 4, tiers=('quick', 'thorough') if quick else ('thorough',), bound={'type': ft, 'radix': radix, 'values': 'all 2^%d' % bits}, timeout=900))
    # (2b) decimal from_int / from_uint at 32/64 bits on windows of 2^16 values: both ends of the type (incl. the most negative value), around zero, around +-10^9 / +-10^18
    def swin(bits, sg):
        if sg:
            mn, mx = -(1 << (bits - 1)), (1 << (bits - 1)) - 1; p = 10 ** (9 if bits == 32 else 18)
            return [('min', mn, mn + 65535), ('zero', -32768, 32767), ('max', mx - 65535, mx), ('negp', -p - 32768, -p + 32767), ('posp', p - 32768, p + 32767)]
        mx = (1 << bits) - 1; p = 10 ** (9 if bits == 32 else 19)
        return [('zero', 0, 65535), ('max', mx - 65535, mx), ('posp', p - 32768, p + 32767)]
    def cint(v, sg): return ('(%dLL - 1)' % (v + 1)) if v < 0 and sg else (('%dLL' % v) if sg else ('%dULL' % v))
    for ft, bits, sg in FT:
        if bits == 16: continue
        for wn, lo, hi in swin(bits, sg):
            d = dg(bits, 10)
            defs = {'OP': 2, 'FT': ft, 'BITS': bits, 'SIGNED': sg, 'RADIX': 10, 'UPPER': 0, 'DIGITS': d}
            defs.update({'VMIN': cint(lo, 1), 'VMAX': cint(hi, 1)} if sg else {'VMINU': cint(lo, 0), 'VMAX': cint(hi, 0)})
            quick = ft in ('int', 'uint', 'llong', 'ullong')
            qs.append(Q('from_%s_r10_win_%s' % (ft, wn), 'C12_int.c', 'numeric.cpp', config='small', defs=defs, ub=True, unwind=d + 5, heap_cap=d + 4, tiers=('quick', 'thorough') if quick else ('thorough',),
                        bound={'type': ft, 'radix': 10, 'values': '[%d, %d]' % (lo, hi)}, timeout=900))
    # (3) cross-printer agreement (the three printers are separate code)
    M = ('core', 'libc', 'strtol')
    for ft, bits, sg, ssft in (('short', 16, 1, 'int'), ('ushort', 16, 0, 'uint'), ('int', 32, 1, 'int'), ('llong', 64, 1, 'llong'), ('ullong', 64, 0, 'ullong')):
        for fmt, radix, withss in (('{x}', 16, 0), ('{o}', 8, 0), ('{b}', 2, 0), ('{}', 10, 1)):
            if radix == 10 and bits > 16: continue
            if radix in (8, 2) and bits > 16: continue
            d = dg(bits, radix)
            defs = {'OP': 3, 'FT': ft, 'SSFT': ssft, 'BITS': bits, 'SIGNED': sg, 'RADIX': radix, 'UPPER': 0, 'DIGITS': d, 'FMTNAME': 0}
            if withss: defs['WITH_SS'] = 1
            quick = radix == 16 and ft in ('short', 'llong')
            if radix == 10:
                # decimal through the 32-bit printers: all 16-bit values in thorough, |v| <= 999 in quick (division loops)
                dq = dict(defs); dq.update({'VMIN': -999, 'VMAX': 999} if sg else {'VMAX': 999}); dq['DIGITS'] = 3
                qs.append(Q('agree_%s_dec_small' % ft, 'C12_int.c', 'numeric.cpp', config='small', defs=dq, models=M, ub=True, unwind=10, heap_cap=16, object_bits=10, tiers=('quick',), bound={'type': ft, 'radix': 10, 'values': '|v| <= 999'}, timeout=900))
            qs.append(Q('agree_%s_r%d' % (ft, radix), 'C12_int.c', 'numeric.cpp', config='small', defs=defs, models=M, ub=True, unwind=d + 6, heap_cap=2 * d + 8, object_bits=10,
                        tiers=('quick', 'thorough') if quick else ('thorough',), bound={'type': ft, 'radix': radix, 'values': 'all 2^%d' % bits}, timeout=900 if quick else 3000))
    # (3b) decimal cross-printer agreement (from_int == ST::format == string_stream) at 32/64 bits on the same windows
    for ft, bits, sg, ssft in (('int', 32, 1, 'int'), ('uint', 32, 0, 'uint'), ('long', 64, 1, 'long'), ('ulong', 64, 0, 'ulong'), ('llong', 64, 1, 'llong'), ('ullong', 64, 0, 'ullong')):    # every static type string_stream has its own inserter for
        for wn, lo, hi in swin(bits, sg):
            d = dg(bits, 10)
            defs = {'OP': 3, 'FT': ft, 'SSFT': ssft, 'BITS': bits, 'SIGNED': sg, 'RADIX': 10, 'UPPER': 0, 'DIGITS': d + 1, 'FMTNAME': 0, 'WITH_SS': 1}
            defs.update({'VMIN': cint(lo, 1), 'VMAX': cint(hi, 1)} if sg else {'VMINU': cint(lo, 0), 'VMAX': cint(hi, 0)})
            quick = wn in ('min', 'max', 'zero')
            qs.append(Q('agree_%s_dec_win_%s' % (ft, wn), 'C12_int.c', 'numeric.cpp', config='small', defs=defs, models=M, ub=True, unwind=d + 6, heap_cap=2 * d + 8, object_bits=10,
                        tiers=('quick', 'thorough') if quick else ('thorough',), bound={'type': ft, 'radix': 10, 'values': '[%d, %d]' % (lo, hi)}, timeout=900))
    # (6) the most negative values, concretely, with overflow checks on
    for ft, ext, d in (('int', '(-2147483647 - 1)', 11), ('long', '(-9223372036854775807LL - 1)', 20), ('llong', '(-9223372036854775807LL - 1)', 20)):
        qs.append(Q('extreme_%s' % ft, 'C12_int.c', 'numeric.cpp', config='small', defs={'OP': 6, 'FT': ft, 'EXTREME': ext, 'DIGITS': d}, models=M, ub=True, unwind=d + 6, heap_cap=48, object_bits=10, bound={'value': ext}))
    # (4) parsing with the contract stub
    for to, sg, bits, ll in (('to_short', 1, 16, 0), ('to_ushort', 0, 16, 0), ('to_int', 1, 32, 0), ('to_uint', 0, 32, 0), ('to_long', 1, 64, 0), ('to_ulong', 0, 64, 0), ('to_long_long', 1, 64, 1), ('to_ulong_long', 0, 64, 1)):
        for tier, n in (('quick', 4), ('thorough', 8)):
            qs.append(Q('parse_%s_%s' % (to, tier), 'C12_int.c', 'numeric.cpp', config='small', defs={'OP': 4, 'TO': to, 'TOSIGNED': sg, 'TOBITS': bits, 'TOLL': ll, 'DIGITS': n}, models=('core', 'libc', 'strtostub'),
                        unwind=n + 5, heap_cap=16, tiers=(tier,), bound={'text bytes': n, 'stub': 'arbitrary value and end position'}))
    # (5) 16-bit round trip through the strtol model
    for base in range(2, 37):
        quick = base in (2, 10, 16, 36)
        d = dg(16, base)
        qs.append(Q('roundtrip_short_b%d' % base, 'C12_int.c', 'numeric.cpp', config='small', defs={'OP': 5, 'FT': 'short', 'BITS': 16, 'SIGNED': 1, 'RADIX': base, 'UPPER': 0, 'DIGITS': d}, models=M, ub=True,
                    unwind=d + 5, heap_cap=d + 4, tiers=('quick', 'thorough') if quick else ('thorough',), bound={'base': base, 'values': 'all 2^16'}, timeout=900))
    # (5b) round trip at 32/64 bits through the strtol model on the windows of (2b): to_int / to_long_long of from_int's text returns the value, ok and full_match set
    for ft, bits, to, ty in (('int', 32, 'to_int', 'int32_t'), ('llong', 64, 'to_long_long', 'int64_t')):
        for base in (10, 16):
            for wn, lo, hi in swin(bits, 1):
                if wn in ('negp', 'posp') and base != 10: continue
                d = dg(bits, base)
                defs = {'OP': 5, 'FT': ft, 'BITS': bits, 'SIGNED': 1, 'RADIX': base, 'UPPER': 0, 'DIGITS': d, 'RT_TO': to, 'RT_T': ty, 'VMIN': cint(lo, 1), 'VMAX': cint(hi, 1)}
                quick = True      # measured 4-32 s each
                qs.append(Q('roundtrip_%s_b%d_win_%s' % (ft, base, wn), 'C12_int.c', 'numeric.cpp', config='small', defs=defs, models=M, ub=True, unwind=d + 5, heap_cap=d + 4, tiers=('quick', 'thorough') if quick else ('thorough',),
                            bound={'type': ft, 'base': base, 'values': '[%d, %d]' % (lo, hi)}, timeout=900))
    return qs

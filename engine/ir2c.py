#!/usr/bin/env python3
"""LLVM-14 textual IR (typed pointers) -> C translator used by /verif/vp.

The output is plain C that CBMC's C front end accepts (and that gcc compiles
for translation validation).  See DESIGN.md section 2.2.  Public entry point:
translate(ll_text, roots, ...) -> dict(h=..., c=..., info=...)."""
import re, sys

# ---------------------------------------------------------------- types
class Ty:
    pass
class IntT(Ty):
    def __init__(s, n): s.n = n
    def __repr__(s): return 'i%d' % s.n
class FloatT(Ty):
    def __init__(s, k): s.k = k
    def __repr__(s): return s.k
class VoidT(Ty):
    def __repr__(s): return 'void'
class PtrT(Ty):
    def __init__(s, to): s.to = to
    def __repr__(s): return '%r*' % s.to
class ArrT(Ty):
    def __init__(s, n, el): s.n = n; s.el = el
    def __repr__(s): return '[%d x %r]' % (s.n, s.el)
class StructT(Ty):
    def __init__(s, els, packed=False): s.els = els; s.packed = packed
    def __repr__(s): return '{%s}' % ','.join(map(repr, s.els))
class NamedT(Ty):
    def __init__(s, name): s.name = name
    def __repr__(s): return '%' + s.name
class FnT(Ty):
    def __init__(s, ret, params, vararg): s.ret = ret; s.params = params; s.vararg = vararg
    def __repr__(s): return '%r(%s%s)' % (s.ret, ','.join(map(repr, s.params)), ',...' if s.vararg else '')
class OpaqueT(Ty):
    def __repr__(s): return 'opaque'
class MetaT(Ty):
    def __repr__(s): return 'metadata'

TOK = re.compile(r'\s*(%"(?:[^"\\]|\\.)*"|%[\w.$-]+|\$"(?:[^"\\]|\\.)*"|\$[\w.$-]+|@"(?:[^"\\]|\\.)*"|@[\w.$-]+|c"(?:[^"\\]|\\.)*"|<\{|\}>|\.\.\.|[\[\]{}()<>*,=]|-?\d+\.\d+e[+-]?\d+|0x[0-9A-Fa-f]+|-?\d+|[\w.]+|![\w.]*|#\d+)')

def tokenize(s):
    out = []; i = 0
    while i < len(s):
        m = TOK.match(s, i)
        if not m:
            if s[i:].strip() == '': break
            raise SyntaxError('tok: %r' % s[i:i+40])
        out.append(m.group(1)); i = m.end()
    return out

class P:
    """token stream parser"""
    def __init__(s, toks): s.t = toks; s.i = 0
    def peek(s, k=0): return s.t[s.i+k] if s.i+k < len(s.t) else None
    def next(s):
        v = s.t[s.i]; s.i += 1; return v
    def eat(s, x):
        if s.peek() == x: s.i += 1; return True
        return False
    def expect(s, x):
        v = s.next()
        if v != x: raise SyntaxError('expected %r got %r in %r' % (x, v, ' '.join(s.t[max(0,s.i-8):s.i+8])))
    def done(s): return s.i >= len(s.t)

    def type(s):
        t = s.next()
        if t == 'void': ty = VoidT()
        elif re.fullmatch(r'i\d+', t): ty = IntT(int(t[1:]))
        elif t in ('float', 'double', 'x86_fp80', 'half', 'fp128'): ty = FloatT(t)
        elif t == 'opaque': ty = OpaqueT()
        elif t == 'metadata': ty = MetaT()
        elif t == 'ptr': ty = PtrT(IntT(8))
        elif t == 'label': ty = VoidT()
        elif t.startswith('%'): ty = NamedT(unq(t[1:]))
        elif t == '[':
            n = int(s.next()); s.expect('x'); el = s.type(); s.expect(']'); ty = ArrT(n, el)
        elif t == '<' and re.fullmatch(r'\d+', s.peek() or ''):
            n = int(s.next()); s.expect('x'); el = s.type(); s.expect('>'); ty = ArrT(n, el)  # vector: unsupported really
        elif t in ('{', '<{'):
            els = []
            close = '}' if t == '{' else '}>'
            if not s.eat(close):
                while True:
                    els.append(s.type())
                    if s.eat(close): break
                    s.expect(',')
            ty = StructT(els, t == '<{')
        else:
            raise SyntaxError('type? %r in %r' % (t, ' '.join(s.t[max(0,s.i-8):s.i+8])))
        while True:
            if s.peek() == '*': s.next(); ty = PtrT(ty)
            elif s.peek() == '(' :
                # function type
                s.next(); ps = []; va = False
                if not s.eat(')'):
                    while True:
                        if s.peek() == '...': s.next(); va = True
                        else: ps.append(s.type())
                        if s.eat(')'): break
                        s.expect(',')
                ty = FnT(ty, ps, va)
            else: break
        return ty

def unq(n):
    if n.startswith('"'): n = n[1:-1]
    return n

def cname(n):
    return re.sub(r'[^A-Za-z0-9_]', lambda m: '_%02x' % ord(m.group(0)), n)

# ---------------------------------------------------------------- module
class Mod:
    def __init__(s):
        s.types = {}      # name -> Ty
        s.globals = {}    # name -> (ty, init tokens or None, const)
        s.funcs = {}      # name -> Func
        s.decls = {}      # name -> FnT
        s.order = []

class Func:
    def __init__(s, name, ret, params, vararg):
        s.name = name; s.ret = ret; s.params = params; s.vararg = vararg
        s.blocks = []   # (label, [lines])

PARAM_ATTRS = {'noundef','nonnull','readonly','writeonly','nocapture','noalias','zeroext','signext','returned','readnone','immarg','inreg','nofree','nest','swiftself','noescape','inrange'}

def skip_attrs(p):
    while True:
        t = p.peek()
        if t in PARAM_ATTRS: p.next()
        elif t in ('align', 'dereferenceable', 'dereferenceable_or_null'):
            p.next()
            if p.eat('('): p.next(); p.expect(')')
            else: p.next()
        elif t in ('sret', 'byval', 'byref', 'inalloca', 'preallocated', 'elementtype'):
            p.next(); p.expect('('); p.type(); p.expect(')')
        else: break

def parse_module(text):
    m = Mod()
    lines = text.split('\n')
    i = 0
    while i < len(lines):
        ln = lines[i]
        if ln.startswith('%') and ' = type ' in ln:
            name, rest = ln.split(' = type ', 1)
            m.types[unq(name[1:])] = P(tokenize(rest)).type()
        elif ln.startswith('@llvm.used') or ln.startswith('@llvm.compiler.used') or ln.startswith('@llvm.global_ctors') or ln.startswith('@llvm.global_dtors'):
            pass      # linker bookkeeping, not program state (static constructors are not run by any harness: a reachable guard/initialiser call fails as 'no body')
        elif ln.startswith('@'):
            parse_global(m, ln)
        elif ln.startswith('declare '):
            parse_decl(m, ln)
        elif ln.startswith('define '):
            f = parse_define_header(m, ln)
            i += 1
            cur = (str(sum(1 for _, n in f.params if re.fullmatch(r'\d+', n))), [])
            f.blocks.append(cur)
            while lines[i] != '}':
                l = lines[i]
                mm = re.match(r'^([\w.$-]+|"[^"]*"):', l)
                if mm:
                    cur = (unq(mm.group(1)), []); f.blocks.append(cur)
                elif l.strip() and not l.strip().startswith(';'):
                    s = l.strip()
                    # join continuation lines (invoke, switch, landingpad)
                    if s.startswith('switch ') or ' = landingpad ' in s or re.search(r'\binvoke\b', s):
                        while True:
                            nxt = lines[i+1].strip()
                            if s.startswith('switch ') and not s.endswith(']'):
                                s += ' ' + nxt; i += 1; continue
                            if re.search(r'\binvoke\b', s) and ' unwind label ' not in s:
                                s += ' ' + nxt; i += 1; continue
                            if ' = landingpad ' in s and (nxt.startswith('cleanup') or nxt.startswith('catch ') or nxt.startswith('filter ')):
                                s += ' ' + nxt; i += 1; continue
                            break
                    cur[1].append(s)
                i += 1
            m.funcs[f.name] = f; m.order.append(f.name)
        i += 1
    return m

def parse_global(m, ln):
    name, rest = ln.split(' = ', 1)
    name = unq(name[1:])
    toks = tokenize(strip_meta(rest))
    p = P(toks)
    const = False; external = False
    while p.peek() not in ('global', 'constant'):
        if p.peek() == 'external' or p.peek() == 'extern_weak': external = True
        if p.peek() == 'alias': return
        p.next()
    const = p.next() == 'constant'
    ty = p.type()
    init = None
    if not external:
        # init runs to ', align' / ', comdat' / end
        depth = 0; j = p.i
        while j < len(toks):
            t = toks[j]
            if t in ('(', '[', '{', '<{', '<'): depth += 1
            elif t in (')', ']', '}', '}>', '>'): depth -= 1
            elif t == ',' and depth == 0: break
            j += 1
        init = toks[p.i:j]
    m.globals[name] = (ty, init, const)

def strip_meta(s):
    # drop trailing metadata attachments ", !tbaa !5" and "#nn" and comments
    s = re.sub(r';.*$', '', s) if ' c"' not in s else s
    s = re.sub(r',\s*!\w+(\.\w+)*\s+!\w+', '', s)
    s = re.sub(r',?\s*section\s+"[^"]*"', '', s)
    return s

def parse_fn_header(ln):
    toks = tokenize(strip_meta(ln))
    p = P(toks)
    # skip until return type: tokens before '@name'
    at = next(k for k, t in enumerate(toks) if t.startswith('@'))
    # find start of ret type: walk back—ret type is the type that ends right before at; try parse from each candidate
    for st in range(1, at):
        try:
            q = P(toks[st:at]); skip_attrs(q); ty = q.type()
            if q.done(): ret = ty; break
        except Exception: continue
    else:
        raise SyntaxError('fn header: ' + ln)
    p.i = at
    name = unq(p.next()[1:])
    p.expect('(')
    params = []; va = False
    if not p.eat(')'):
        while True:
            if p.peek() == '...': p.next(); va = True
            else:
                ty = p.type(); skip_attrs(p)
                pn = None
                if p.peek() and p.peek().startswith('%'): pn = unq(p.next()[1:])
                params.append((ty, pn))
            if p.eat(')'): break
            p.expect(',')
    return name, ret, params, va

def parse_decl(m, ln):
    name, ret, params, va = parse_fn_header(ln)
    m.decls[name] = FnT(ret, [t for t, _ in params], va)

def parse_define_header(m, ln):
    name, ret, params, va = parse_fn_header(ln)
    # unnamed params get numbers 0..n-1
    ps = []
    for k, (t, n) in enumerate(params):
        ps.append((t, n if n is not None else str(k)))
    return Func(name, ret, ps, va)

# ---------------------------------------------------------------- C emission
class Emit:
    def __init__(s, m):
        s.m = m; s.out = []; s.anon = {}; s.anon_defs = []
        s.externs = set()

    def sym(s, n):
        if n in s.m.funcs: return cname(n)
        if n in s.m.decls: return 'vpx_' + cname(n)
        if n in s.m.globals and s.m.globals[n][1] is None: return 'vpx_' + cname(n)
        return cname(n)

    def resolve(s, ty):
        while isinstance(ty, NamedT): ty = s.m.types[ty.name]
        return ty

    def cty(s, ty):
        """C type name usable as prefix (arrays/functions wrapped in structs/typedef'd)"""
        if isinstance(ty, IntT):
            if ty.n == 1: return 'uint8_t'
            for w in (8, 16, 32, 64):
                if ty.n <= w: return 'uint%d_t' % w
            if ty.n <= 128: return 'unsigned __int128'
            raise NotImplementedError('int width %d' % ty.n)
        if isinstance(ty, FloatT): return {'float': 'float', 'double': 'double', 'x86_fp80': 'long double'}[ty.k]
        if isinstance(ty, VoidT): return 'void'
        if isinstance(ty, PtrT):
            to = ty.to
            if isinstance(to, FnT) or isinstance(to, VoidT) or isinstance(to, OpaqueT) or isinstance(to, MetaT): return 'void*'
            if isinstance(to, NamedT) and isinstance(s.m.types.get(to.name), OpaqueT): return 'void*'
            if isinstance(to, NamedT) and to.name not in s.m.types: return 'void*'
            return s.cty(to) + '*'
        if isinstance(ty, NamedT):
            return 'struct ' + cname(ty.name)
        if isinstance(ty, (ArrT, StructT)):
            key = repr(ty) + ('P' if isinstance(ty, StructT) and ty.packed else '')
            if key not in s.anon:
                nm = 'anon%d' % len(s.anon); s.anon[key] = nm
                s.anon_defs.append((nm, ty))
            return 'struct ' + s.anon[key]
        if isinstance(ty, FnT): return 'void'
        raise NotImplementedError(repr(ty))

    def struct_body(s, ty):
        if isinstance(ty, ArrT):
            return '{ %s a[%d]; }' % (s.cty(ty.el), max(ty.n, 1))
        fs = ' '.join('%s f%d;' % (s.cty(e), k) for k, e in enumerate(ty.els))
        if not ty.els: fs = 'char _empty;'
        return '{ %s }%s' % (fs, ' __attribute__((packed))' if ty.packed else '')

def is_agg(ty): return isinstance(ty, (ArrT, StructT, NamedT))

class FnEmit:
    def __init__(s, E, f):
        s.E = E; s.m = E.m; s.f = f
        s.vt = {}   # ssa name -> Ty
        s.lenwidth = {}  # ssa name of an i64 computed as x << k or x * 2^k -> 2^k
        s.origin = {}  # ssa name of an i8* -> (typed pointer expr, element width) when it is a bitcast of iN*
        s.lines = []
        for t, n in f.params: s.vt[n] = t

    def v(s, name): return 'v_' + cname(name)

    # ---- operand parsing: returns (cexpr, Ty)
    def operand(s, p, ty):
        t = p.next()
        if t.startswith('%'):
            n = unq(t[1:]); return s.v(n), ty
        if t.startswith('@'):
            n = unq(t[1:]); return s.gref(n, ty), ty
        if t in ('true', 'false'): return ('1' if t == 'true' else '0'), ty
        if t == 'null': return '((%s)0)' % s.E.cty(ty), ty
        if t in ('undef', 'poison'):
            if is_agg(ty): return '(%s){0}' % s.E.cty(ty), ty
            return '((%s)0)' % s.E.cty(ty), ty
        if t == 'zeroinitializer': return '(%s){0}' % s.E.cty(ty), ty
        if re.fullmatch(r'-?\d+', t):
            if isinstance(ty, FloatT): return t + '.0', ty
            n = int(t); w = ty.n
            n &= (1 << w) - 1
            suf = 'ULL' if w > 32 else 'U'
            return '((%s)%d%s)' % (s.E.cty(ty), n, suf), ty
        if re.fullmatch(r'-?\d+\.\d+e[+-]?\d+', t): return t, ty
        if t.startswith('0x'):
            if isinstance(ty, FloatT):
                import struct
                d = struct.unpack('>d', bytes.fromhex(t[2:].rjust(16, '0')))[0]
                return repr(d), ty
        if t in ('getelementptr', 'bitcast', 'ptrtoint', 'inttoptr', 'trunc', 'zext', 'sext', 'addrspacecast'):
            p.i -= 1
            return s.constexpr(p)
        if t in ('{', '[', '<{') or t.startswith('c"'):
            p.i -= 1
            return s.aggconst(p, ty), ty
        raise SyntaxError('operand %r' % t)

    def typed(s, p):
        ty = p.type(); skip_attrs(p)
        e, _ = s.operand(p, ty)
        return e, ty

    def gref(s, n, ty):
        # address of global / function, cast to the use type
        s.E.externs.add(n)
        return '((%s)&%s)' % (s.E.cty(ty), s.E.sym(n))

    def constexpr(s, p):
        op = p.next()
        if op == 'getelementptr':
            p.eat('inbounds'); p.expect('(')
            base = p.type(); p.expect(',')
            ops = []
            while True:
                p.eat('inrange')
                e, ty = s.typed(p); ops.append((e, ty))
                if p.eat(')'): break
                p.expect(',')
            return s.gep(base, ops)
        p.expect('(')
        e, ty = s.typed(p); p.expect('to'); ty2 = p.type(); p.expect(')')
        return s.cast(op, e, ty, ty2), ty2

    def aggconst(s, p, ty):
        t = p.next()
        rty = s.E.resolve(ty)
        if t.startswith('c"'):
            bs = cstring(t[2:-1])
            return '{ {%s} }' % ','.join(str(b) for b in bs)
        close = {'{': '}', '[': ']', '<{': '}>'}[t]
        parts = []
        if not p.eat(close):
            while True:
                ety = p.type()
                if p.peek() in ('{', '[', '<{') or (p.peek() or '').startswith('c"'):
                    parts.append(s.aggconst(p, ety))
                elif p.peek() == 'zeroinitializer':
                    p.next(); parts.append('{0}')
                else:
                    e, _ = s.operand(p, ety); parts.append(e)
                if p.eat(close): break
                p.expect(',')
        if t == '[': return '{ {%s} }' % ','.join(parts)
        return '{ %s }' % ','.join(parts)

    def gep(s, base, ops):
        (pe, pty) = ops[0]
        cur = base
        expr = '(%s + (int64_t)%s)' % (pe, s.sx(ops[1])) if not s.iszero(ops[1][0]) else pe
        for (ie, ity) in ops[2:]:
            r = s.E.resolve(cur)
            if isinstance(r, StructT):
                k = int(re.search(r'\)(\d+)U', ie).group(1))
                expr = '(&(%s)->f%d)' % (expr, k); cur = r.els[k]
            elif isinstance(r, ArrT):
                expr = '(&(%s)->a[(int64_t)%s])' % (expr, s.sx((ie, ity))); cur = r.el
            else: raise NotImplementedError('gep into %r' % r)
        return expr, PtrT(cur)

    def iszero(s, e): return re.fullmatch(r'\(\(uint\d+_t\)0U(LL)?\)', e) is not None

    def sx(s, op):
        e, ty = op
        return '((int%d_t)%s)' % (max(8, s.E_w(ty)), e)

    def E_w(s, ty):
        for w in (8, 16, 32, 64):
            if ty.n <= w: return w
        return 128

    def cast(s, op, e, ty, ty2):
        c2 = s.E.cty(ty2)
        if op in ('bitcast', 'addrspacecast'):
            if isinstance(ty, PtrT) and isinstance(ty2, PtrT): return '((%s)%s)' % (c2, e)
            if isinstance(ty, (IntT, FloatT)) and isinstance(ty2, (IntT, FloatT)):
                return '(*(%s*)&(%s){%s})' % (c2, s.E.cty(ty), e)
            raise NotImplementedError('bitcast %r->%r' % (ty, ty2))
        if op == 'ptrtoint': return '((%s)VP_PTOI(%s))' % (c2, e)
        if op == 'inttoptr': return '((%s)(uintptr_t)%s)' % (c2, e)
        if op == 'trunc': return s.mask('((%s)%s)' % (c2, e), ty2)
        if op == 'zext': return '((%s)%s)' % (c2, e)
        if op == 'sext':
            if ty.n == 1: return '((%s)(-(int%d_t)%s))' % (c2, s.E_w(ty2), e)
            return '((%s)(int%d_t)(int%d_t)%s)' % (c2, s.E_w(ty2), s.E_w(ty), e)
        if op in ('fpext', 'fptrunc'): return '((%s)%s)' % (c2, e)
        if op in ('uitofp',): return '((%s)%s)' % (c2, e)
        if op in ('sitofp',): return '((%s)(int%d_t)%s)' % (c2, s.E_w(ty), e)
        if op in ('fptoui',): return '((%s)%s)' % (c2, e)
        if op in ('fptosi',): return '((%s)(int%d_t)%s)' % (c2, s.E_w(ty2), e)
        raise NotImplementedError(op)

    def mask(s, e, ty):
        if isinstance(ty, IntT) and ty.n not in (8, 16, 32, 64, 128):
            return '(%s & %dU)' % (e, (1 << ty.n) - 1)
        return e

    # ---- instruction translation
    def emit(s, x): s.lines.append(x)

    def assign(s, dst, ty, expr):
        s.vt[dst] = ty
        s.emit('%s = %s;' % (s.v(dst), expr))

    def instr(s, ln, label, phimap):
        ln = strip_meta(ln)
        toks = tokenize(ln)
        p = P(toks)
        dst = None
        if len(toks) > 1 and toks[1] == '=' and toks[0].startswith('%'):
            dst = unq(toks[0][1:]); p.i = 2
        op = p.next()
        if op in ('tail', 'musttail', 'notail'): op = p.next()
        BIN = {'add': '+', 'sub': '-', 'mul': '*', 'and': '&', 'or': '|', 'xor': '^', 'shl': '<<', 'lshr': '>>',
               'udiv': '/', 'urem': '%'}
        if op in BIN or op in ('sdiv', 'srem', 'ashr'):
            flags = set()
            while p.peek() in ('nuw', 'nsw', 'exact'): flags.add(p.next())
            ty = p.type(); a, _ = s.operand(p, ty); p.expect(','); b, _ = s.operand(p, ty)
            ct = s.E.cty(ty); w = s.E_w(ty)
            mk = re.fullmatch(r'\(\(uint64_t\)(\d+)ULL\)', b)
            if mk and dst is not None:
                if op == 'shl' and int(mk.group(1)) in (1, 2, 3): s.lenwidth[dst] = 1 << int(mk.group(1))
                if op == 'mul' and int(mk.group(1)) in (2, 4, 8): s.lenwidth[dst] = int(mk.group(1))
            if 'nsw' in flags and UBFLAGS and op in ('add', 'sub', 'mul'):
                fn = {'add': 'plus', 'sub': 'minus', 'mul': 'mult'}[op]
                s.emit('VP_ASSERT(!VP_OVERFLOW_%s((int%d_t)%s,(int%d_t)%s), "nsw %s overflow (signed UB)");' % (fn, w, a, w, b, op))
            if op in BIN:
                if op in ('shl', 'lshr'):
                    s.emit('VP_ASSERT(%s < %d, "shift amount in range");' % (b, ty.n)) if not re.fullmatch(r'\(\(uint\d+_t\)\d+U(LL)?\)', b) else None
                e = '((%s)(%s %s %s))' % (ct, a, BIN[op], b)
                if op in ('udiv', 'urem'): s.emit('VP_ASSERT(%s != 0, "division by zero");' % b)
            elif op == 'ashr': e = '((%s)((int%d_t)%s >> %s))' % (ct, w, a, b)
            else:
                s.emit('VP_ASSERT(%s != 0, "division by zero");' % b)
                e = '((%s)((int%d_t)%s %s (int%d_t)%s))' % (ct, w, a, '/' if op == 'sdiv' else '%', w, b)
            s.assign(dst, ty, s.mask(e, ty)); return
        if op in ('fadd', 'fsub', 'fmul', 'fdiv'):
            while p.peek() in ('fast', 'nnan', 'ninf', 'nsz', 'arcp', 'contract', 'afn', 'reassoc'): p.next()
            ty = p.type(); a, _ = s.operand(p, ty); p.expect(','); b, _ = s.operand(p, ty)
            s.assign(dst, ty, '(%s %s %s)' % (a, {'fadd': '+', 'fsub': '-', 'fmul': '*', 'fdiv': '/'}[op], b)); return
        if op == 'icmp':
            pred = p.next(); ty = p.type(); a, _ = s.operand(p, ty); p.expect(','); b, _ = s.operand(p, ty)
            cm = {'eq': '==', 'ne': '!=', 'ugt': '>', 'uge': '>=', 'ult': '<', 'ule': '<=', 'sgt': '>', 'sge': '>=', 'slt': '<', 'sle': '<='}[pred]
            if isinstance(ty, PtrT):
                if pred in ('eq', 'ne'): e = '(%s %s %s)' % (a, cm, b)
                else: e = '(VP_POFF(%s) %s VP_POFF(%s))' % (a, cm, b)
            elif pred[0] == 's':
                w = s.E_w(ty)
                if ty.n not in (8, 16, 32, 64):
                    sh = w - ty.n
                    e = '((int%d_t)(%s << %d) %s (int%d_t)(%s << %d))' % (w, a, sh, cm, w, b, sh)
                else: e = '((int%d_t)%s %s (int%d_t)%s)' % (w, a, cm, w, b)
            else: e = '(%s %s %s)' % (a, cm, b)
            s.assign(dst, IntT(1), '(uint8_t)' + e); return
        if op == 'fcmp':
            pred = p.next(); ty = p.type(); a, _ = s.operand(p, ty); p.expect(','); b, _ = s.operand(p, ty)
            cm = {'oeq': '==', 'one': '!=', 'ogt': '>', 'oge': '>=', 'olt': '<', 'ole': '<=', 'une': '!=', 'ueq': '=='}[pred]
            s.assign(dst, IntT(1), '(uint8_t)(%s %s %s)' % (a, cm, b)); return
        if op in ('trunc', 'zext', 'sext', 'bitcast', 'ptrtoint', 'inttoptr', 'fpext', 'fptrunc', 'uitofp', 'sitofp', 'fptoui', 'fptosi', 'addrspacecast'):
            e, ty = s.typed(p); p.expect('to'); ty2 = p.type()
            if op == 'bitcast' and isinstance(ty, PtrT) and isinstance(ty2, PtrT) and isinstance(ty2.to, IntT) and ty2.to.n == 8 \
               and isinstance(ty.to, IntT) and ty.to.n in (16, 32, 64):
                s.origin[dst] = (e, ty.to.n)
            s.assign(dst, ty2, s.cast(op, e, ty, ty2)); return
        if op == 'freeze':
            e, ty = s.typed(p); s.assign(dst, ty, e); return
        if op == 'select':
            c, _ = s.typed(p); p.expect(','); a, ty = s.typed(p); p.expect(','); b, _ = s.typed(p)
            s.assign(dst, ty, '(%s ? %s : %s)' % (c, a, b)); return
        if op == 'alloca':
            ty = p.type(); n = None
            if p.eat(','):
                if p.peek() != 'align': n, _ = s.typed(p)
            s.vt[dst] = PtrT(ty)
            if n: s.emit('%s = vp_heap_alloc(sizeof(%s) * %s);' % (s.v(dst), s.E.cty(ty), n))
            else:
                s.allocas.append((dst, ty))
                s.emit('%s = &%s_mem;' % (s.v(dst), s.v(dst)))
            return
        if op == 'load':
            p.eat('volatile'); p.eat('atomic')
            ty = p.type(); p.expect(','); pe, pty = s.typed(p)
            s.emit('VP_ACCESS(%s, sizeof(*%s));' % (pe, pe))
            s.assign(dst, ty, s.mask('(*%s)' % pe, ty)); return
        if op == 'store':
            p.eat('volatile'); p.eat('atomic')
            e, ty = s.typed(p); p.expect(','); pe, pty = s.typed(p)
            s.emit('VP_ACCESS_W(%s, sizeof(*%s));' % (pe, pe))
            s.emit('*%s = %s;' % (pe, e)); return
        if op == 'getelementptr':
            p.eat('inbounds'); base = p.type(); p.expect(',')
            ops = []
            while True:
                e, ty = s.typed(p); ops.append((e, ty))
                if not p.eat(','): break
            e, ty = s.gep(base, ops)
            s.assign(dst, ty, e); return
        if op == 'phi':
            ty = p.type(); s.vt[dst] = ty
            while True:
                p.expect('['); e, _ = s.operand(p, ty); p.expect(','); l = unq(p.next()[1:]); p.expect(']')
                phimap.setdefault((l, label), []).append((dst, e))
                if not p.eat(','): break
            return
        if op == 'extractvalue':
            e, ty = s.typed(p); p.expect(','); k = int(p.next())
            r = s.E.resolve(ty)
            if isinstance(r, StructT): s.assign(dst, r.els[k], '%s.f%d' % (e, k))
            else: s.assign(dst, r.el, '%s.a[%d]' % (e, k))
            return
        if op == 'insertvalue':
            e, ty = s.typed(p); p.expect(','); e2, ty2 = s.typed(p); p.expect(','); k = int(p.next())
            s.assign(dst, ty, e)
            r = s.E.resolve(ty)
            s.emit('%s.%s = %s;' % (s.v(dst), ('f%d' % k) if isinstance(r, StructT) else 'a[%d]' % k, e2)); return
        if op == 'ret':
            if p.peek() == 'void': s.emit('return;')
            else:
                e, ty = s.typed(p); s.emit('return %s;' % e)
            return
        if op == 'br':
            if p.peek() == 'label':
                p.next(); l = unq(p.next()[1:]); s.goto(label, l, phimap)
            else:
                c, _ = s.typed(p); p.expect(','); p.expect('label'); a = unq(p.next()[1:]); p.expect(','); p.expect('label'); b = unq(p.next()[1:])
                s.emit('if (%s) { %s } else { %s }' % (c, s.gototxt(label, a), s.gototxt(label, b)))
            return
        if op == 'switch':
            e, ty = s.typed(p); p.expect(','); p.expect('label'); d = unq(p.next()[1:]); p.expect('[')
            cases = []
            while not p.eat(']'):
                ce, _ = s.typed(p); p.expect(','); p.expect('label'); cases.append((ce, unq(p.next()[1:])))
            for ce, l in cases:
                s.emit('if (%s == %s) { %s }' % (e, ce, s.gototxt(label, l)))
            s.goto(label, d, phimap); return
        if op == 'unreachable':
            s.emit('VP_ASSERT(0, "LLVM unreachable executed (undefined behaviour)"); VP_ASSUME(0);'); return
        if op == 'resume':
            s.emit('vp_exc_pending = 1; return%s; /* resume: unwinding continues in the caller */' % s.retdefault()); return
        if op == 'landingpad':
            ty = p.type(); s.vt[dst] = ty
            s.emit('%s.f0 = vp_exc_obj; %s.f1 = vp_exc_sel;' % (s.v(dst), s.v(dst)))
            # the clean-up code of a landing pad runs like ordinary code: the calls it makes (destructors, and the calls THEY make) must not be
            # taken for throwing ones because an exception is in flight.  The exception (kind, object) stays recorded; `resume` re-raises it.
            s.emit('vp_exc_pending = 0;')
            if 'catch' in toks: s.emit('/* catch clauses: %s */' % ' '.join(toks[p.i:]))
            return
        if op in ('call', 'invoke'):
            s.call(p, dst, op == 'invoke', label, phimap); return
        if op in ('fence', 'cmpxchg', 'atomicrmw'): raise NotImplementedError('atomic instruction (%s): the frame-condition argument for C20 does not cover code that synchronises' % op)
        raise NotImplementedError('instr %s: %s' % (op, ln))

    def retdefault(s):
        if isinstance(s.f.ret, VoidT): return ''
        if is_agg(s.f.ret): return ' (%s){0}' % s.E.cty(s.f.ret)
        return ' (%s)0' % s.E.cty(s.f.ret)

    def gototxt(s, frm, to):
        if (frm, to) in s.phiedges: return '@@PHI:%s:%s@@' % (frm, to)
        return 'goto L_%s;' % cname(to)

    def phitxt(s, frm, to, phimap):
        moves = phimap.get((frm, to), [])
        t = ['{']
        for k, (d, e) in enumerate(moves): t.append('%s t%d = %s;' % (s.E.cty(s.vt[d]), k, e))
        for k, (d, e) in enumerate(moves): t.append('%s = t%d;' % (s.v(d), k))
        t.append('goto L_%s; }' % cname(to))
        return ' '.join(t)

    def goto(s, frm, to, phimap): s.emit(s.gototxt(frm, to))

    def call(s, p, dst, invoke, label, phimap):
        while p.peek() in ('fastcc', 'ccc', 'coldcc') or p.peek() in PARAM_ATTRS or p.peek() in ('fast', 'nnan', 'ninf', 'nsz'): p.next()
        skip_attrs(p)
        rty = p.type()
        if isinstance(rty, PtrT) and isinstance(rty.to, FnT) and (p.peek() or '').startswith(('%', '@')) and False: pass
        fnty = None
        if isinstance(rty, FnT): fnty = rty; rty = fnty.ret
        callee = p.next()
        p.expect('(')
        args = []; s.raw_args = []; s.raw_attrs = []
        if not p.eat(')'):
            while True:
                if p.peek() == 'metadata':
                    # skip metadata arg
                    while p.peek() not in (',', ')'): p.next()
                    args.append(('0', MetaT())); s.raw_args.append([]); s.raw_attrs.append([])
                else:
                    ty = p.type(); j0 = p.i; skip_attrs(p); i0 = p.i; e, _ = s.operand(p, ty); args.append((e, ty))
                    s.raw_args.append(p.t[i0:p.i]); s.raw_attrs.append(p.t[j0:i0])
                if p.eat(')'): break
                p.expect(',')
        if callee == '@__cxa_throw':
            s.last_throw_ti = next((unq(t[1:]) for t in s.raw_args[1] if t.startswith('@')), '?')
        if callee == '@fprintf':
            ln_tok = s.raw_args[3] if len(s.raw_args) > 3 else []
            s.last_fprintf_line = ln_tok[-1] if ln_tok else '?'
        normal = unwind = None
        rest = p.t[p.i:]
        if invoke:
            k = rest.index('to'); normal = unq(rest[k+2][1:]); unwind = unq(rest[k+5][1:])
        if callee.startswith('@'):
            name = unq(callee[1:])
            e = s.direct(name, rty, args, dst)
            if e is None:
                pass
        else:
            fp = s.v(unq(callee[1:]))
            sig = '%s (*)(%s)' % (s.E.cty(rty), ', '.join(s.E.cty(t) for _, t in args) or 'void')
            e = '((%s)%s)(%s)' % (sig, fp, ', '.join(a for a, _ in args))
        if e is not None:
            if dst is not None and not isinstance(rty, VoidT): s.assign(dst, rty, e)
            else: s.emit(e + ';')
        if invoke:
            s.emit('if (vp_exc_pending) { %s } else { %s }' % (s.gototxt(label, unwind), s.gototxt(label, normal)))
        else:
            s.emit('if (vp_exc_pending) return%s;' % s.retdefault())

    def direct(s, name, rty, args, dst):
        a = [x for x, _ in args]
        if name.startswith('llvm.lifetime') or name.startswith('llvm.experimental.noalias') or name.startswith('llvm.dbg'): return None
        if name.startswith('llvm.assume'): return 'VP_ASSERT(%s, "llvm.assume condition holds")' % a[0]
        if name.startswith('llvm.memcpy') or name.startswith('llvm.memmove') or name.startswith('llvm.memset'):
            # CBMC's built-in memcpy/memmove/memset is only used for CONSTANT lengths: with a symbolic length it
            # mis-handles arrays whose elements are wider than a byte (measured; see DESIGN.md 2.2).  Symbolic
            # lengths go through explicit element loops (rt/model_core.c), typed after the bitcast origin.
            kind = name.split('.')[1]
            const_len = re.fullmatch(r'\(\(uint64_t\)\d+ULL\)', a[2]) is not None
            if const_len and kind in ('memcpy', 'memmove') and int(re.search(r'(\d+)ULL', a[2]).group(1)) <= 8 and kind == 'memcpy':
                # short constant-length byte copies (e.g. the 3-byte U+FFFD substitute at a symbolic cursor): explicit byte assignments; CBMC's
                # built-in memcpy at a symbolic offset ran the propositional reduction out of memory (measured: cleanup_utf8, 2 input bytes, > 6 GB)
                ln = int(re.search(r'(\d+)ULL', a[2]).group(1))
                s.emit('VP_ACCESS_W(%s, %s); VP_ACCESS(%s, %s);' % (a[0], a[2], a[1], a[2]))
                s.emit('{ uint8_t *d_ = (uint8_t *)%s; const uint8_t *s_ = (const uint8_t *)%s; uint8_t t_[%d]; %s %s }' % (
                    a[0], a[1], max(ln, 1), ' '.join('t_[%d] = s_[%d];' % (i, i) for i in range(ln)), ' '.join('d_[%d] = t_[%d];' % (i, i) for i in range(ln))))
                return None
            if const_len:
                s.emit('VP_ACCESS_W(%s, %s);' % (a[0], a[2]))
                if kind != 'memset': s.emit('VP_ACCESS(%s, %s);' % (a[1], a[2]))
                return '%s(%s, %s, %s)' % (kind, a[0], a[1], a[2])
            def origin(k):
                toks = s.raw_args[k]
                if len(toks) == 1 and toks[0].startswith('%'): return s.origin.get(unq(toks[0][1:]))
                return None
            od = origin(0); os_ = origin(1) if kind != 'memset' else od
            if od and os_ and od[1] == os_[1] and od[1] in (16, 32, 64):
                w = od[1]
                if kind == 'memset': return 'vp_memset_u%d(%s, %s, %s)' % (w, od[0], a[1], a[2])
                return 'vp_%s_u%d(%s, %s, %s)' % (kind, w, od[0], os_[0], a[2])
            # no bitcast origin (clang often loads the data pointer as i8* directly): use the element width implied by
            # the length computation (n << k / n * 2^k) when both operands are at least that aligned
            def align(k):
                t = s.raw_attrs[k]
                return int(t[t.index('align') + 1]) if 'align' in t else 1
            lt = s.raw_args[2]
            lw = s.lenwidth.get(unq(lt[0][1:])) if len(lt) == 1 and lt[0].startswith('%') else None
            if lw in (2, 4, 8) and align(0) >= lw and (kind == 'memset' or align(1) >= lw):
                ct = 'uint%d_t*' % (lw * 8)
                if kind == 'memset': return 'vp_memset_u%d((%s)%s, %s, %s)' % (lw * 8, ct, a[0], a[1], a[2])
                return 'vp_%s_u%d((%s)%s, (%s)%s, %s)' % (kind, lw * 8, ct, a[0], ct, a[1], a[2])
            return 'vp_%s_u8(%s, %s, %s)' % (kind, a[0], a[1], a[2])
        if name.startswith('llvm.trap') or name.startswith('llvm.ubsantrap'): return 'VP_ASSERT(0, "llvm.trap reached")'
        m = re.match(r'llvm\.(umin|umax|smin|smax)\.i(\d+)', name)
        if m:
            w = int(m.group(2)); sg = m.group(1)[0] == 's'; gt = m.group(1).endswith('max')
            c = ('(int%d_t)%s %s (int%d_t)%s' % (w, a[0], '>' if gt else '<', w, a[1])) if sg else '%s %s %s' % (a[0], '>' if gt else '<', a[1])
            return '((%s) ? %s : %s)' % (c, a[0], a[1])
        m = re.match(r'llvm\.(usub|uadd)\.sat\.i(\d+)', name)
        if m:
            w = int(m.group(2))
            if m.group(1) == 'usub': return '(%s > %s ? (uint%d_t)(%s - %s) : (uint%d_t)0)' % (a[0], a[1], w, a[0], a[1], w)
            return '((uint%d_t)(%s + %s) < %s ? (uint%d_t)~(uint%d_t)0 : (uint%d_t)(%s + %s))' % (w, a[0], a[1], a[0], w, w, w, a[0], a[1])
        m = re.match(r'llvm\.abs\.i(\d+)', name)
        if m:
            w = int(m.group(1))
            if a[1] != '0': s.emit('VP_ASSERT(%s != ((uint%d_t)1 << %d), "llvm.abs of INT_MIN is poison (signed UB in std::abs)");' % (a[0], w, w-1))
            return '((int%d_t)%s < 0 ? (uint%d_t)(0 - %s) : %s)' % (w, a[0], w, a[0], a[0])
        m = re.match(r'llvm\.(u|s)(add|sub|mul)\.with\.overflow\.i(\d+)', name)
        if m:
            w = int(m.group(3)); sg = m.group(1) == 's'; fn = m.group(2)
            ct = s.E.cty(rty)
            t = 'int%d_t' % w if sg else 'uint%d_t' % w
            s.emit('{ %s r_; uint8_t o_ = __builtin_%s_overflow((%s)%s, (%s)%s, &r_); %s = (%s){ (uint%d_t)r_, o_ }; }' % (t, fn, t, a[0], t, a[1], s.v(dst), ct, w))
            s.vt[dst] = rty
            return None
        if name == '__cxa_throw':
            kind = exc_kind(s.last_throw_ti)
            s.E.info['throws'].add(kind)
            return 'vp_throw(%s, %s)' % (a[0], kind)
        if name == 'fprintf' or name == 'fputs' or name == 'fwrite' and False:
            if name == 'fprintf':
                # remember constant arguments: an ST_ASSERT message precedes abort()
                s.last_fprintf = [s.E.const_string(x) for x in s.raw_args[1:]]
                return None
        if 'assert_handler' in name:
            cs = [s.E.const_string(x) for x in s.raw_args]
            return s.abort_site(cs[0], s.raw_args[1][-1] if s.raw_args[1] else '?', cs[2])
        if name == 'abort':
            lf = getattr(s, 'last_fprintf', None)
            if lf and len(lf) >= 4:
                return s.abort_site(lf[1], s.last_fprintf_line, lf[3])
            return s.abort_site(None, '?', None)
        s.E.externs.add(name)
        return '%s(%s)' % (s.E.sym(name), ', '.join(a))

    def abort_site(s, fname, line, msg):
        import os
        where = '%s:%s' % (os.path.basename(fname) if fname else '?', line)
        text = 'library abort at %s: %s' % (where, msg if msg is not None else 'abort() called')
        text = text.replace('\\', '/').replace('"', "'")
        s.E.info['abort_sites'].append(text)
        allowed = msg is not None and any(al in msg for al in s.E.allow_aborts)
        if allowed:
            return 'vp_abort_allowed()'
        return 'VP_ABORT("%s")' % text

    def run(s):
        f = s.f
        s.allocas = []
        # pre-scan phis to know which edges need shims
        phimap = {}
        s.phiedges = set()
        for label, lines in f.blocks:
            for ln in lines:
                mm = re.match(r'%[\w."$-]+ = phi ', ln)
                if mm:
                    for l in re.findall(r'\[[^\]]*?,\s*%("[^"]*"|[\w.$-]+)\s*\]', ln):
                        s.phiedges.add((unq(l), label))
        body = []
        for label, lines in f.blocks:
            s.lines = []
            for ln in lines:
                s.instr(ln, label, phimap)
            body.append((label, s.lines))
        out = []
        isroot = f.name in getattr(s.E, 'roots', ())
        if isroot:
            ps = ', '.join('%s %s' % (('void*', 'p_' + cname(n)) if isinstance(t, PtrT) else (s.E.cty(t), s.v(n))) for t, n in f.params) or 'void'
            out.append('%s %s(%s) {' % (root_cty(s.E, f.ret), cname(f.name), ps))
            for t, n in f.params:
                if isinstance(t, PtrT): out.append('  %s %s = (%s)p_%s;' % (s.E.cty(t), s.v(n), s.E.cty(t), cname(n)))
        else:
            ps = ', '.join('%s %s' % (s.E.cty(t), s.v(n)) for t, n in f.params) or 'void'
            out.append('%s %s(%s) {' % (s.E.cty(f.ret), cname(f.name), ps))
        pn = {n for _, n in f.params}
        for n, t in s.vt.items():
            if n in pn: continue
            out.append('  %s %s;' % (s.E.cty(t), s.v(n)))
        for n, t in s.allocas:
            out.append('  %s %s_mem;' % (s.E.cty(t), s.v(n)))
        first = True
        for label, lines in body:
            out.append(' L_%s: ;' % cname(label))
            for l in lines:
                l = re.sub(r'@@PHI:(.*?):(.*?)@@', lambda mm: s.phitxt(mm.group(1), mm.group(2), phimap), l)
                out.append('  ' + l)
        out.append('}')
        return '\n'.join(out)

def cstring(s):
    bs = []; i = 0
    while i < len(s):
        if s[i] == '\\' and s[i+1:i+2] == '\\':
            bs.append(0x5C); i += 2          # LLVM prints a backslash as \\\\
        elif s[i] == '\\':
            bs.append(int(s[i+1:i+3], 16)); i += 3
        else: bs.append(ord(s[i])); i += 1
    return bs

UBFLAGS = False

EXC_KINDS = {
    '_ZTIN2ST13unicode_errorE': 'VP_EXC_UNICODE',
    '_ZTIN2ST10bad_formatE': 'VP_EXC_BAD_FORMAT',
    '_ZTIN2ST11codec_errorE': 'VP_EXC_CODEC',
    '_ZTISt12out_of_range': 'VP_EXC_OUT_OF_RANGE',
    '_ZTISt16invalid_argument': 'VP_EXC_INVALID_ARGUMENT',
    '_ZTISt9bad_alloc': 'VP_EXC_BAD_ALLOC',
    '_ZTISt20bad_array_new_length': 'VP_EXC_BAD_ALLOC',
    '_ZTISt12length_error': 'VP_EXC_LENGTH',
}
def exc_kind(ti):
    return EXC_KINDS.get(ti, 'VP_EXC_OTHER')

class TranslateError(Exception):
    pass

def _const_string(E, toks):
    """decode a constant C string operand (gep into a private constant), else None"""
    for t in toks:
        if t.startswith('@'):
            g = E.m.globals.get(unq(t[1:]))
            if g and g[1] and g[1][0].startswith('c"'):
                bs = cstring(g[1][0][2:-1])
                if bs and bs[-1] == 0: bs = bs[:-1]
                return bytes(bs).decode('latin-1')
    return None
Emit.const_string = _const_string

def reachable(m, roots):
    todo = list(roots); seen = set()
    while todo:
        n = todo.pop()
        if n in seen or n not in m.funcs: continue
        seen.add(n)
        for _, lines in m.funcs[n].blocks:
            for ln in lines:
                for g in re.findall(r'@("[^"]*"|[\w.$-]+)', ln):
                    g = unq(g)
                    if g in m.funcs: todo.append(g)
                    elif g in m.globals and m.globals[g][1]:
                        for g2 in m.globals[g][1]:
                            if g2.startswith('@') and unq(g2[1:]) in m.funcs: todo.append(unq(g2[1:]))
    return seen

_PARSE_CACHE = {}

def translate(ll_text, roots, stubs=(), allow_aborts=(), ub=False, src_name='<ir>'):
    """Translate the functions reachable from `roots`.
    Returns dict(h=<types+prototypes>, c=<bodies, includes the header text>, info=<dict>)."""
    global UBFLAGS
    UBFLAGS = ub
    import hashlib, copy
    key = hashlib.sha1(ll_text.encode()).hexdigest()
    if key not in _PARSE_CACHE: _PARSE_CACHE[key] = parse_module(ll_text)
    m = copy.copy(_PARSE_CACHE[key])
    m.funcs = dict(m.funcs); m.decls = dict(m.decls); m.order = list(m.order)
    for n in list(m.funcs):
        if any(n.startswith(p) for p in stubs):
            f = m.funcs.pop(n); m.order.remove(n)
            m.decls[n] = FnT(f.ret, [t for t, _ in f.params], f.vararg)
    missing = [r for r in roots if r not in m.funcs]
    if missing: raise TranslateError('root functions not defined in IR: %s' % ', '.join(missing))
    E = Emit(m)
    E.info = {'throws': set(), 'abort_sites': [], 'functions': [], 'mutable_globals': [], 'externals': [], 'ir_sha1': key, 'byval_params': []}
    E.allow_aborts = list(allow_aborts)
    E.roots = set(roots)
    seen = reachable(m, roots)
    fn_c = []
    for n in m.order:
        if n in seen:
            try:
                fn_c.append(FnEmit(E, m.funcs[n]).run())
            except (NotImplementedError, SyntaxError, KeyError, IndexError, ValueError) as ex:
                raise TranslateError('cannot translate %s: %s: %s' % (n, type(ex).__name__, ex))
            E.info['functions'].append(n)
    # globals referenced
    gl_c = []; done = set()
    def emit_global(n):
        if n in done: return
        done.add(n)
        if n in m.funcs or n in m.decls: return
        if n not in m.globals: return
        ty, init, const = m.globals[n]
        ct = E.cty(ty) if not isinstance(E.resolve(ty), OpaqueT) else 'char'
        if init is None:
            gl_c.append('%s %s; /* external global: storage provided here */' % (ct, E.sym(n)))
            E.info['externals'].append(n)
            return
        for t in init:
            if t.startswith('@'):
                E.externs.add(unq(t[1:])); emit_global(unq(t[1:]))
        fe = FnEmit(E, Func('_g', VoidT(), [], False))
        p = P(list(init))
        if init == ['zeroinitializer']: ie = '{0}'
        elif init[0] in ('{', '[', '<{') or init[0].startswith('c"'): ie = fe.aggconst(p, ty)
        else: ie, _ = fe.operand(p, ty)
        if not const: E.info['mutable_globals'].append(n)
        gl_c.append('%s%s %s = %s;' % ('const ' if const else '', ct, cname(n), ie))
    prev = -1
    while prev != len(done):
        prev = len(done)
        for n in sorted(E.externs): emit_global(n)
    H = []
    H.append('/* generated by /verif/engine/ir2c.py from %s (sha1 %s) */' % (src_name, key[:12]))
    H.append('#include "vp_rt.h"')

    for n in m.types:
        if not isinstance(m.types[n], OpaqueT): H.append('struct %s;' % cname(n))
    defs = {}
    for n, t in m.types.items():
        if isinstance(t, StructT): defs['struct ' + cname(n)] = t
    emitted = set(); lines = []
    def deps(t):
        r = []
        els = t.els if isinstance(t, StructT) else [t.el]
        for e in els:
            if isinstance(e, NamedT): r.append('struct ' + cname(e.name))
            elif isinstance(e, (ArrT, StructT)): r.append(E.cty(e))
        return r
    def emit_def(k):
        if k in emitted: return
        emitted.add(k)
        t = defs.get(k)
        if t is None:
            for nm, tt in E.anon_defs:
                if 'struct ' + nm == k: t = tt
        if t is None: return
        for d in deps(t): emit_def(d)
        lines.append('%s %s;' % (k, E.struct_body(t)))
    # only the named types that are actually used (transitively) are defined
    used = set()
    def mark(ty):
        if isinstance(ty, NamedT):
            if ty.name in used: return
            used.add(ty.name)
            t = m.types.get(ty.name)
            if t is not None: mark(t)
        elif isinstance(ty, StructT):
            for e in ty.els: mark(e)
        elif isinstance(ty, ArrT): mark(ty.el)
        elif isinstance(ty, PtrT): mark(ty.to)
        elif isinstance(ty, FnT):
            mark(ty.ret)
            for e in ty.params: mark(e)
    for n in m.types: mark(NamedT(n))
    for k in list(defs): E.struct_body(defs[k])
    changed = True
    while changed:
        n0 = len(E.anon_defs)
        for nm, tt in list(E.anon_defs): E.struct_body(tt)
        changed = len(E.anon_defs) != n0
    for k in list(defs): emit_def(k)
    for nm, tt in E.anon_defs: emit_def('struct ' + nm)
    H.extend(lines)
    # stable aliases for the library's main classes (harnesses build their state objects directly)
    for tn, alias in (('class.ST::string', 'vp_string_t'), ('class.ST::string_stream', 'vp_sstream_t'), ('struct.ST::format_spec', 'vp_format_spec_t')):
        if tn in m.types and not isinstance(m.types[tn], OpaqueT): H.append('typedef struct %s %s;' % (cname(tn), alias))
    # root prototypes (pointer parameters are void* so that harnesses and the native build agree) + parameter type aliases
    for n in m.order:
        if n in seen and n in E.roots:
            f = m.funcs[n]
            for k, (t, _) in enumerate(f.params):
                if isinstance(t, PtrT) and is_agg(t.to) and not (isinstance(t.to, NamedT) and (t.to.name not in m.types or isinstance(m.types[t.to.name], OpaqueT))):
                    H.append('typedef %s T_%s_a%d;' % (E.cty(t.to), cname(n), k))
            H.append('%s %s(%s);' % (root_cty(E, f.ret), cname(n), ', '.join(root_cty(E, t) for t, _ in f.params) or 'void'))
    C = []
    for n in m.order:
        if n in seen and n not in E.roots:
            f = m.funcs[n]
            C.append('%s %s(%s);' % (E.cty(f.ret), cname(n), ', '.join(E.cty(t) for t, _ in f.params) or 'void'))
    for n in sorted(E.externs):
        if n in m.decls and n not in m.funcs and not n.startswith('llvm.'):
            d = m.decls[n]
            C.append('/* extern */ %s %s(%s%s);' % (E.cty(d.ret), E.sym(n), ', '.join(E.cty(t) for t in d.params) or ('void' if not d.vararg else ''), ', ...' if d.vararg and d.params else ''))
            E.info['externals'].append(n)
    C.extend(gl_c)
    # frame condition over module-level mutable state (C20): snapshot / compare every mutable global that the translated code can reach
    mg = [n for n in E.info['mutable_globals']]
    C.append('/* mutable module-level objects reachable from the roots: %s */' % (', '.join(mg) or 'none'))
    C.append('const int vp_n_mutable_globals = %d;' % len(mg))
    for k, n in enumerate(mg):
        ct = E.cty(m.globals[n][0]) if not isinstance(E.resolve(m.globals[n][0]), OpaqueT) else 'char'
        C.append('static %s vp_gsnap_%d;' % (ct, k))
    C.append('#ifdef __CPROVER__')
    C.append('void vp_globals_snapshot(void) { %s }' % ' '.join('vp_gsnap_%d = %s;' % (k, cname(n)) for k, n in enumerate(mg)))
    # the first 320 bytes of each object are compared by straight-line code (independent of any unwinding bound); a loop only for what lies beyond
    C.append('int vp_globals_unchanged(void) { int ok = 1; %s return ok; }' % ' '.join(
        '{ const unsigned char *a_ = (const unsigned char *)&vp_gsnap_%d, *b_ = (const unsigned char *)&%s; %s for (unsigned i_ = 320; i_ < sizeof(vp_gsnap_%d); i_++) if (a_[i_] != b_[i_]) ok = 0; }'
        % (k, cname(n), ' '.join('if (%d < sizeof(vp_gsnap_%d) && a_[%d] != b_[%d]) ok = 0;' % (i, k, i, i) for i in range(320)), k) for k, n in enumerate(mg)))
    C.append('#endif')
    C.append('\n\n'.join(fn_c))
    E.info['_mg'] = mg
    E.info['throws'] = sorted(E.info['throws'])
    mg = E.info.pop('_mg', [])
    nat = ('static const char *const vp_mg_names[] = { %s 0 }; static const unsigned vp_mg_sizes[] = { %s 0 };\n' % (
               ''.join('"%s", ' % n for n in mg), ''.join('sizeof(%s), ' % (E.cty(m.globals[n][0]) if not isinstance(E.resolve(m.globals[n][0]), OpaqueT) else 'char') for n in mg)) +
           '/* taking a snapshot also arms the hook that re-takes it at the end of every ABI-guarded one-time initialisation (native_common.c interposes __cxa_guard_release) */\n'
           'extern void (*vp_nat_guard_hook)(void);\nstatic void vp_k_resnap(void) { (void)vp_nat_globals(vp_mg_names, vp_mg_sizes, %d, 0); }\n'
           '#define vp_globals_snapshot() (vp_nat_guard_hook = vp_k_resnap, (void)vp_nat_globals(vp_mg_names, vp_mg_sizes, %d, 0))\n#define vp_globals_unchanged() vp_nat_globals(vp_mg_names, vp_mg_sizes, %d, 1)\n#define vp_n_mutable_globals %d' % (len(mg), len(mg), len(mg), len(mg)))
    H.extend(['#ifdef __CPROVER__', 'void vp_globals_snapshot(void); int vp_globals_unchanged(void); extern const int vp_n_mutable_globals;', '#else',
              'int vp_nat_globals(const char *const *names, const unsigned *sizes, int n, int mode);', nat, '#endif'])
    htext = '\n'.join(H) + '\n'
    return {'h': htext, 'c': '\n'.join(C) + '\n', 'info': E.info}

def root_cty(E, ty):
    if isinstance(ty, PtrT): return 'void*'
    return E.cty(ty)

def main():
    args = sys.argv[1:]
    ub = False
    if '--ub' in args: ub = True; args.remove('--ub')
    stubs = [a[7:] for a in args if a.startswith('--stub=')]
    allow = [a[8:] for a in args if a.startswith('--allow=')]
    args = [a for a in args if not a.startswith('--')]
    src, roots = args[0], args[1:]
    r = translate(open(src).read(), roots, stubs, allow, ub, src)
    print(r['h']); print(r['c'])

if __name__ == '__main__':
    main()

#!/usr/bin/env python3
"""vp driver: regenerates the encoding from /repo's working tree, runs the CBMC queries of a
property, replays counterexamples against the real library, writes evidence.  See DESIGN.md."""
import os, sys, re, json, time, shutil, subprocess, hashlib, signal, resource, argparse, traceback
from concurrent.futures import ThreadPoolExecutor, ProcessPoolExecutor, as_completed

VERIF = os.path.dirname(os.path.dirname(os.path.abspath(__file__)))
REPO = os.environ.get('VP_REPO', '/repo')
sys.path.insert(0, os.path.join(VERIF, 'engine'))
import ir2c

CLANG = 'clang++-14'
CXXSTD = '-std=c++20'
NCPU = os.cpu_count() or 8

# ----------------------------------------------------------------------------- query description
class Q:
    """One solver query = harness x shim x configuration x bound."""
    def __init__(s, name, harness, shim, defs=None, config='real', cxxdefs=(), unwind=8, unwindset=None,
                 models=('core', 'libc'), stubs=(), allow_aborts=(), ub=False, timeout=None, mem_gb=6,
                 tiers=('quick', 'thorough'), cbmc_extra=(), roots=None, noinline=False, bound=None,
                 object_bits=None, replay=True, note=None, loops=(), hunwind=None, heap_cap=64, solver=None, twice=False):
        s.name = name; s.harness = harness; s.shim = shim; s.defs = dict(defs or {}); s.config = config
        s.cxxdefs = tuple(cxxdefs); s.unwind = unwind; s.unwindset = dict(unwindset or {})
        s.models = tuple(models); s.stubs = tuple(stubs); s.allow_aborts = tuple(allow_aborts); s.ub = ub
        s.timeout = timeout; s.mem_gb = mem_gb; s.tiers = tuple(tiers); s.cbmc_extra = tuple(cbmc_extra)
        s.roots = roots; s.noinline = noinline; s.bound = bound or {}; s.object_bits = object_bits
        s.replay = replay; s.note = note; s.solver = solver; s.heap_cap = heap_cap   # capacity in bytes of every modelled heap block (vp_rt.h)
        s.twice = twice          # C20: run the harness body twice (rt/model_twice.c), module-level state must be identical after the second run
        s.hunwind = hunwind      # bound for loops of the harness and of the environment models (default: unwind)
        s.loops = tuple(loops)   # [(regex on the loop name 'function.N', bound)]: per-loop bounds; everything else gets `unwind`

def load_prop(pid):
    import importlib.util
    path = os.path.join(VERIF, 'props', pid + '.py')
    spec = importlib.util.spec_from_file_location('prop_' + pid, path)
    mod = importlib.util.module_from_spec(spec)
    mod.Q = Q
    spec.loader.exec_module(mod)
    return mod

# ----------------------------------------------------------------------------- config header
def gen_config(outdir, variant):
    """Render /repo/include/st_config.h.in the way the test build does (C++20, STL strings on).
    variant 'small' shrinks the library's own build-time parameters ST_MAX_SSO_LENGTH (16->4) and
    ST_STACK_STRING_SIZE (256->8); the code under test is unchanged and parametric in them."""
    os.makedirs(outdir, exist_ok=True)
    src = open(os.path.join(REPO, 'include', 'st_config.h.in')).read()
    cm = open(os.path.join(REPO, 'CMakeLists.txt')).read()
    vals = {}
    for k in ('ST_MAJOR_VERSION', 'ST_MINOR_VERSION'):
        m = re.search(r'set\(%s\s+(\d+)\)' % k, cm); vals[k] = m.group(1) if m else '0'
    vals['ST_VERSION'] = '%s.%s' % (vals['ST_MAJOR_VERSION'], vals['ST_MINOR_VERSION'])
    on = {'ST_HAVE_INT64', 'ST_HAVE_DEPRECATED_ATTR', 'ST_HAVE_NODISCARD_ATTR', 'ST_HAVE_CXX17_STRING_VIEW',
          'ST_HAVE_CXX20_CHAR8_TYPES', 'ST_ENABLE_STL_STRINGS'}
    def cmdef(m):
        return ('#define %s' % m.group(1)) if m.group(1) in on else ('/* #undef %s */' % m.group(1))
    out = re.sub(r'#cmakedefine\s+(\w+)', cmdef, src)
    out = re.sub(r'@(\w+)@', lambda m: vals.get(m.group(1), ''), out)
    if variant == 'small':
        out, n1 = re.subn(r'(#define\s+ST_MAX_SSO_LENGTH\s+)\(\d+\)', r'\1(4)', out)
        out, n2 = re.subn(r'(#define\s+ST_STACK_STRING_SIZE\s+)\(\d+\)', r'\1(8)', out)
        if n1 != 1 or n2 != 1: raise RuntimeError('cannot render small configuration')
    open(os.path.join(outdir, 'st_config.h'), 'w').write(out)
    m1 = re.search(r'#define\s+ST_MAX_SSO_LENGTH\s+\((\d+)\)', out); m2 = re.search(r'#define\s+ST_STACK_STRING_SIZE\s+\((\d+)\)', out)
    m3 = re.search(r'#define\s+ST_MAX_SSO_SIZE\s+\((\d+)\)', out)
    return {'SSO': int(m1.group(1)), 'STACK': int(m2.group(1)), 'SSO_SIZE': int(m3.group(1))}

# ----------------------------------------------------------------------------- helpers
def run(cmd, timeout=None, cwd=None, mem_gb=None, env=None, stdout_path=None):
    def pre():
        os.setsid()
        if mem_gb:
            b = int(mem_gb * (1 << 30)); resource.setrlimit(resource.RLIMIT_AS, (b, b))
    t0 = time.time()
    out_f = open(stdout_path, 'wb') if stdout_path else subprocess.PIPE
    p = subprocess.Popen(cmd, cwd=cwd, stdout=out_f, stderr=subprocess.PIPE, preexec_fn=pre, env=env)
    try:
        o, e = p.communicate(timeout=timeout)
        to = False
    except subprocess.TimeoutExpired:
        try: os.killpg(p.pid, signal.SIGKILL)
        except ProcessLookupError: pass
        o, e = p.communicate(); to = True
    ru = resource.getrusage(resource.RUSAGE_CHILDREN)
    if stdout_path: out_f.close(); o = b''
    return {'rc': p.returncode, 'out': o.decode('utf-8', 'replace') if o else '', 'err': e.decode('utf-8', 'replace') if e else '',
            'timeout': to, 'wall': time.time() - t0}

class Ctx:
    def __init__(s, scratch, keep=False):
        s.scratch = scratch; s.keep = keep; s.cfg = {}; s.ll = {}; s.native = {}
        os.makedirs(scratch, exist_ok=True)
    def config(s, variant):
        if variant not in s.cfg:
            d = os.path.join(s.scratch, 'cfg_' + variant)
            s.cfg[variant] = (d, gen_config(d, variant))
        return s.cfg[variant]

def shim_key(q):
    return hashlib.sha1(repr((q.shim, q.config, q.cxxdefs, q.noinline)).encode()).hexdigest()[:10]

def compile_ll(ctx, q):
    """shim .cpp -> LLVM IR text (clang++-14 -O1, no vectorisation / unrolling)."""
    k = shim_key(q)
    if k in ctx.ll: return ctx.ll[k]
    cfgdir, _ = ctx.config(q.config)
    out = os.path.join(ctx.scratch, 'shim_%s_%s.ll' % (os.path.splitext(os.path.basename(q.shim))[0], k))
    cmd = [CLANG, CXXSTD, '-O1', '-fno-vectorize', '-fno-slp-vectorize', '-fno-unroll-loops', '-fno-discard-value-names' if False else '-g0',
           '-S', '-emit-llvm', '-I', cfgdir, '-I', os.path.join(REPO, 'include'), '-I', os.path.join(VERIF, 'shims'), '-I', os.path.join(VERIF, 'rt'),
           '-Wno-deprecated-declarations', '-o', out, os.path.join(VERIF, 'shims', q.shim)]
    if q.noinline: cmd.insert(2, '-fno-inline')
    for d in q.cxxdefs: cmd.insert(2, '-D' + d)
    r = run(cmd, timeout=300)
    if r['rc'] != 0:
        ctx.ll[k] = ('error', 'shim %s does not compile against the current headers:\n%s' % (q.shim, r['err'][-3000:]))
    else:
        ctx.ll[k] = ('ok', out)
    return ctx.ll[k]

def harness_roots(q, ll_text, defs):
    if q.roots: return list(q.roots)
    src = open(os.path.join(VERIF, 'harness', q.harness)).read()
    # preprocess so that #if'd-out calls do not pull in roots
    cmd = ['gcc', '-E', '-P', '-D__CPROVER__', '-DVP_SCAN_ROOTS', '-I', os.path.join(VERIF, 'rt'), '-I', os.path.join(VERIF, 'harness')] + ['-D%s=%s' % kv for kv in defs.items()] + ['-include', '/dev/null', '-']
    try:
        p = subprocess.run(cmd, input=re.sub(r'#\s*include\s+"k\.h"', '', src).encode(), capture_output=True, timeout=60)
        if p.returncode == 0: src = p.stdout.decode('utf-8', 'replace')
    except Exception: pass
    names = set(re.findall(r'\b(vp_[A-Za-z0-9_]+)\b', src))
    defined = set(re.findall(r'^define [^@]*@(vp_[A-Za-z0-9_]+)\(', ll_text, re.M))
    return sorted(names & defined)

def all_defs(ctx, q):
    _, cfg = ctx.config(q.config)
    d = {'VP_SSO': cfg['SSO'], 'VP_STACK': cfg['STACK'], 'VP_SSO_SIZE': cfg['SSO_SIZE'], 'VP_HEAP_CAP': q.heap_cap}
    d.update(q.defs)
    if q.twice: d['VP_TWICE'] = 1
    return d

def prepare_query(ctx, q):
    """IR -> C for one query. Returns dict with dir, or error."""
    st, ll = compile_ll(ctx, q)
    if st != 'ok': return {'status': 'error', 'reason': ll}
    qdir = os.path.join(ctx.scratch, 'q_' + re.sub(r'[^A-Za-z0-9_.-]', '_', q.name))
    os.makedirs(qdir, exist_ok=True)
    ll_text = open(ll).read()
    defs = all_defs(ctx, q)
    try:
        roots = harness_roots(q, ll_text, defs)
        if not roots: return {'status': 'error', 'reason': 'harness %s references no shim function defined in the IR' % q.harness}
        t0 = time.time()
        r = ir2c.translate(ll_text, roots, stubs=q.stubs, allow_aborts=q.allow_aborts, ub=q.ub, src_name=os.path.basename(ll))
    except ir2c.TranslateError as ex:
        return {'status': 'error', 'reason': 'cannot encode: %s' % ex}
    open(os.path.join(qdir, 'k.h'), 'w').write(r['h'])
    open(os.path.join(qdir, 'k.c'), 'w').write('#include "k.h"\n' + r['c'])
    return {'status': 'ok', 'dir': qdir, 'roots': roots, 'info': r['info'], 'translate_s': time.time() - t0}

def cbmc_cmd(ctx, q, prep):
    defs = all_defs(ctx, q)
    files = [os.path.join(VERIF, 'harness', q.harness), os.path.join(prep['dir'], 'k.c')]
    for m in ('inputs',) + tuple(q.models) + (('twice',) if q.twice else ()): files.append(os.path.join(VERIF, 'rt', 'model_%s.c' % m))
    cmd = ['cbmc'] + files + ['-I', prep['dir'], '-I', os.path.join(VERIF, 'rt'), '-I', os.path.join(VERIF, 'harness')]
    for k, v in defs.items(): cmd += ['-D', '%s=%s' % (k, v)]
    cmd += ['--function', 'vp_twice_main' if q.twice else 'vp_harness_main', '--unwind', str(q.unwind), '--unwinding-assertions',
            '--no-malloc-may-fail', '--drop-unused-functions', '--no-pointer-primitive-check',
            '--trace', '--json-ui', '--verbosity', '8']
    if q.unwindset and not (q.loops or q.hunwind):
        cmd += ['--unwindset', ','.join('%s:%d' % kv for kv in q.unwindset.items())]
    if q.object_bits: cmd += ['--object-bits', str(q.object_bits), '-D', 'VP_OBJECT_BITS=%d' % q.object_bits]
    if q.solver == 'cadical': cmd += ['--sat-solver', 'cadical']
    elif q.solver == 'kissat': cmd += ['--external-sat-solver', 'kissat']
    cmd += list(q.cbmc_extra)
    return cmd

def parse_cbmc(text):
    res = {'props': [], 'status': None, 'steps': None, 'vars': None, 'clauses': None, 'solver_s': 0.0, 'errors': [], 'vccs': None}
    try:
        data = json.loads(text)
    except Exception as ex:
        # truncated output (timeout / OOM): salvage nothing
        res['errors'].append('unparseable cbmc output: %s' % ex); return res
    for e in data:
        if 'messageText' in e:
            t = e['messageText']
            m = re.search(r'size of program expression: (\d+) steps', t)
            if m: res['steps'] = int(m.group(1))
            m = re.search(r'(\d+) variables, (\d+) clauses', t)
            if m: res['vars'] = max(res['vars'] or 0, int(m.group(1))); res['clauses'] = max(res['clauses'] or 0, int(m.group(2)))
            m = re.search(r'Runtime Solver: ([\d.]+)s', t)
            if m: res['solver_s'] += float(m.group(1))
            m = re.search(r'Generated (\d+) VCC\(s\), (\d+) remaining', t)
            if m: res['vccs'] = int(m.group(2))
            if e.get('messageType') == 'ERROR': res['errors'].append(t)
        if 'result' in e:
            for r in e['result']:
                inputs = []
                for s in r.get('trace', []) or []:
                    if s.get('stepType') == 'assignment' and str(s.get('lhs', '')).startswith('goto_symex$$return_value$$vp_in_u'):
                        v = s.get('value', {})
                        if 'binary' in v: inputs.append(int(v['binary'], 2))
                        else: inputs.append(int(re.sub(r'[^0-9-]', '', str(v.get('data', '0'))) or 0))
                loc = r.get('sourceLocation', {})
                res['props'].append({'id': r.get('property'), 'status': r.get('status'), 'desc': r.get('description', ''),
                                     'file': os.path.basename(loc.get('file', '')), 'line': loc.get('line'), 'function': loc.get('function'),
                                     'inputs': inputs if r.get('status') == 'FAILURE' else None})
        if 'cProverStatus' in e: res['status'] = e['cProverStatus']
    return res

import threading
MEM_TOTAL_GB = int(os.environ.get('VP_MEM_GB', '48'))   # budget shared by the queries running in parallel (this sandbox has 62 GB, no swap)
class MemBudget:
    def __init__(s, total): s.total = total; s.used = 0; s.cv = threading.Condition()
    def acquire(s, n):
        n = min(n, s.total)
        with s.cv:
            while s.used + n > s.total: s.cv.wait()
            s.used += n
        return n
    def release(s, n):
        with s.cv: s.used -= n; s.cv.notify_all()
MEM = MemBudget(MEM_TOTAL_GB)

# Thorough tier: wall budget per property (default 2 h, VP_THOROUGH_BUDGET_S).  Every quick query always runs; a deeper query that would start after
# the deadline is not started and is reported as NOT decided (never as a success); one that is running at the deadline gets 5 more minutes.
THOROUGH_DEADLINE = [None]
def run_query(ctx, q, tier):
    need = q.mem_gb if (tier == 'quick' or 'quick' in q.tiers) else max(q.mem_gb, 12)     # the quick queries keep their own budget in the thorough tier (more of them run in parallel)
    got = MEM.acquire(need)
    try:
        if tier == 'thorough' and 'quick' not in q.tiers and THOROUGH_DEADLINE[0] is not None and time.time() > THOROUGH_DEADLINE[0]:
            return {'q': q, 'verdict': 'inconclusive', 'resource': True, 'reason': 'not started: the wall budget of the thorough tier was used up by the queries before it', 'wall': 0}
        return run_query_(ctx, q, tier)
    finally:
        MEM.release(got)

def run_query_(ctx, q, tier):
    t0 = time.time()
    prep = prepare_query(ctx, q)
    if prep['status'] != 'ok':
        return {'q': q, 'verdict': 'error', 'reason': prep['reason'], 'wall': time.time() - t0}
    cmd = cbmc_cmd(ctx, q, prep)
    if q.loops or q.hunwind:
        # expand the per-loop bound patterns against the loops CBMC actually sees; loops that are not in the
        # generated library code (harness, environment models) get q.hunwind
        sl = [c for c in cmd if c not in ('--trace', '--unwinding-assertions')] + ['--show-loops']
        r0 = run(sl, timeout=120)
        us = dict(q.unwindset)
        try:
            for e in json.loads(r0['out']):
                for l in e.get('loops', []) if isinstance(e, dict) else []:
                    for rx, b in q.loops:
                        if re.search(rx, l['name']):
                            us[l['name']] = b; break
                    else:
                        if q.hunwind and os.path.basename(l.get('sourceLocation', {}).get('file', '')) != 'k.c':
                            us[l['name']] = q.hunwind
        except Exception as ex:
            return {'q': q, 'verdict': 'error', 'reason': 'cannot list loops: %s %s' % (ex, r0['err'][-300:]), 'wall': time.time() - t0}
        if us: cmd += ['--unwindset', ','.join('%s:%d' % kv for kv in us.items())]
    timeout = max(q.timeout or 0, 400 if tier == 'quick' else 1800)
    if tier == 'thorough' and 'quick' not in q.tiers and THOROUGH_DEADLINE[0] is not None:
        timeout = int(max(60, min(timeout, THOROUGH_DEADLINE[0] - time.time() + 300)))
    if os.environ.get('VP_TIMEOUT_CAP'): timeout = min(timeout, int(os.environ['VP_TIMEOUT_CAP']))     # debugging knob
    outp = os.path.join(prep['dir'], 'cbmc.json')
    r = run(cmd, timeout=timeout, mem_gb=q.mem_gb if (tier == 'quick' or 'quick' in q.tiers) else max(q.mem_gb, 12), stdout_path=outp)
    open(os.path.join(prep['dir'], 'cmd.txt'), 'w').write(' '.join(cmd) + '\n')
    res = {'q': q, 'prep': prep, 'wall': time.time() - t0, 'cbmc_wall': r['wall'], 'cmd': cmd}
    if r['timeout']:
        res.update(verdict='inconclusive', resource=True, reason='solver timeout after %ds' % timeout); return res
    text = open(outp).read()
    pr = parse_cbmc(text)
    res['cbmc'] = pr
    if pr['status'] is None:
        why = 'cbmc ended without a verdict (rc=%s)' % r['rc']
        if r['rc'] in (-9, 137) or 'bad_alloc' in r['err'] or 'Out of memory' in r['err']: why = 'out of memory (limit %s GB)' % q.mem_gb
        errs = '; '.join(pr['errors'][-3:]) or r['err'][-500:]
        oom = 'out of memory' in why
        res.update(verdict='inconclusive' if (oom or not pr['errors']) else 'error', resource=oom, reason='%s: %s' % (why, errs)); return res
    if any(p['status'] == 'ERROR' for p in pr['props']) or any('out of memory' in e.lower() for e in pr['errors']):
        res.update(verdict='inconclusive', resource=any('memory' in e.lower() for e in pr['errors']), reason='solver error: ' + ('; '.join(pr['errors'][-2:]) or 'property status ERROR')[:300]); return res
    failed = [p for p in pr['props'] if p['status'] == 'FAILURE']
    wit = [p for p in pr['props'] if p['desc'].startswith('witness:')]
    wit_ok = [p for p in wit if p['status'] == 'FAILURE']
    real_fail = [p for p in failed if not p['desc'].startswith('witness:')]
    res['witnesses'] = len(wit); res['witnesses_reached'] = len(wit_ok)
    res['n_props'] = len([p for p in pr['props'] if not p['desc'].startswith('witness:')])
    res['failed'] = real_fail
    res['witness_sample'] = wit_ok[0]['inputs'] if wit_ok else None
    unwinding = [p for p in real_fail if 'unwinding assertion' in p['desc']]
    nobody = [p for p in real_fail if 'no body for' in p['desc']]
    if nobody:
        res.update(verdict='error', reason='missing environment model: ' + '; '.join(sorted({p['desc'] for p in nobody}))[:600]); return res
    if not wit:
        res.update(verdict='error', reason='harness has no reachability witness'); return res
    other_fail = [p for p in real_fail if p not in unwinding]
    if other_fail and len(wit_ok) < len(wit):
        # an assertion (e.g. a library abort) fails AND cuts the paths to a witness: the failure is the finding, not vacuity
        res.update(verdict='cex', reason='; '.join(sorted({p['desc'] for p in real_fail}))[:800]); return res
    if len(wit_ok) < len(wit) and unwinding:
        # a failed unwinding assertion cuts every path behind it: the stated loop bound is too small for this harness
        res.update(verdict='error', reason='unwinding bound too small (a loop needs more iterations than stated): ' + '; '.join(sorted({'%s in %s [%s]' % (p['desc'], p['function'], p['id']) for p in unwinding}))[:500]); return res
    if len(wit_ok) < len(wit):
        res.update(verdict='vacuous', reason='witness not reachable: ' + '; '.join(p['desc'] for p in wit if p['status'] != 'FAILURE')); return res
    if real_fail:
        res.update(verdict='cex', reason='; '.join(sorted({p['desc'] for p in real_fail}))[:800]); return res
    res.update(verdict='holds', reason=''); return res

# ----------------------------------------------------------------------------- native replay
def build_native(ctx, q, prep, sanitize=True):
    """harness + real shim (g++) -> executable used to replay solver counterexamples against the real library."""
    cfgdir, _ = ctx.config(q.config)
    defs = all_defs(ctx, q)
    k = shim_key(q) + ('s' if sanitize else 'n')
    san = ['-fsanitize=address,undefined', '-fno-sanitize-recover=undefined', '-fno-omit-frame-pointer'] if sanitize else []
    if k not in ctx.native:
        obj = os.path.join(ctx.scratch, 'native_%s.o' % k); rt = os.path.join(ctx.scratch, 'native_rt_%s.o' % k); cm = os.path.join(ctx.scratch, 'native_cm_%s.o' % k)
        inc = ['-I', cfgdir, '-I', os.path.join(REPO, 'include'), '-I', os.path.join(VERIF, 'shims'), '-I', os.path.join(VERIF, 'rt')]
        cxx = ['g++', CXXSTD, '-O1', '-g', '-DVP_NATIVE_REAL', '-Wno-deprecated-declarations'] + san + ['-D' + d for d in q.cxxdefs] + inc
        r1 = run(cxx + ['-c', os.path.join(VERIF, 'shims', q.shim), '-o', obj], timeout=600)
        r2 = run(cxx + ['-c', os.path.join(VERIF, 'rt', 'native_real.cpp'), '-o', rt], timeout=600)
        r3 = run(['gcc', '-O1', '-g', '-DVP_NATIVE_REAL'] + san + ['-I', os.path.join(VERIF, 'rt'), '-c', os.path.join(VERIF, 'rt', 'native_common.c'), '-o', cm], timeout=600)
        bad = [r for r in (r1, r2, r3) if r['rc'] != 0]
        ctx.native[k] = ('error', bad[0]['err'][-2000:]) if bad else ('ok', [obj, rt, cm])
    st, objs = ctx.native[k]
    if st != 'ok': return ('error', objs)
    exe = os.path.join(prep['dir'], 'replay_' + ('san' if sanitize else 'plain'))
    hobj = exe + '_h.o'
    hc = ['gcc', '-O1', '-g', '-DVP_NATIVE_REAL', '-Wno-incompatible-pointer-types', '-Wno-int-conversion'] + san + ['-I', prep['dir'], '-I', os.path.join(VERIF, 'rt'), '-I', os.path.join(VERIF, 'harness')] + ['-D%s=%s' % kv for kv in defs.items()] + ['-c', os.path.join(VERIF, 'harness', q.harness), '-o', hobj]
    r = run(hc, timeout=300)
    if r['rc'] != 0: return ('error', r['err'][-2000:])
    extra = []
    if q.twice:
        tobj = exe + '_twice.o'
        r = run(hc[:-4] + ['-c', os.path.join(VERIF, 'rt', 'model_twice.c'), '-o', tobj], timeout=300)
        if r['rc'] != 0: return ('error', r['err'][-2000:])
        extra = [tobj]
    r = run(['g++'] + san + [hobj] + extra + objs + ['-o', exe, '-pthread', '-rdynamic', '-ldl'], timeout=300)
    if r['rc'] != 0: return ('error', r['err'][-2000:])
    return ('ok', exe)

def replay_native(ctx, q, prep, inputs, expect_desc=None, timeout=20):
    st, exe = build_native(ctx, q, prep)
    if st != 'ok': return {'status': 'build-error', 'detail': exe}
    inp = os.path.join(prep['dir'], 'inputs_%s.txt' % hashlib.sha1(repr(inputs).encode()).hexdigest()[:8])
    open(inp, 'w').write('\n'.join(str(v) for v in inputs) + '\n')
    env = dict(os.environ); env['ASAN_OPTIONS'] = 'detect_leaks=0:abort_on_error=0:exitcode=66:allocator_may_return_null=1'; env['UBSAN_OPTIONS'] = 'print_stacktrace=0:halt_on_error=1:exitcode=67'
    r = run([exe, inp], timeout=timeout, env=env)
    out = r['out'] + '\n' + r['err']
    fails = re.findall(r'VP-ASSERT-FAILED: (.*) \([^()]*:\d+\)', out)
    info = {'rc': r['rc'], 'timeout': r['timeout'], 'asserts_failed': fails, 'tail': out[-1500:]}
    if r['timeout']: info['status'] = 'hang'
    elif 'VP-ASSUME-FAILED' in out and not fails: info['status'] = 'assumption-not-met'
    elif fails or 'VP-ABORT' in out: info['status'] = 'assert-failed'
    elif r['rc'] in (66, 67) or 'AddressSanitizer' in out or 'runtime error:' in out: info['status'] = 'sanitizer'
    elif r['rc'] is not None and r['rc'] < 0: info['status'] = 'signal-%d' % (-r['rc'])
    elif r['rc'] == 11: info['status'] = 'assert-failed'
    elif r['rc'] == 0: info['status'] = 'passed'
    else: info['status'] = 'exit-%s' % r['rc']
    info['reproduced'] = info['status'] in ('assert-failed', 'sanitizer', 'hang') or info['status'].startswith('signal-')
    return info

# ----------------------------------------------------------------------------- known findings
def load_known():
    p = os.path.join(VERIF, 'known_findings.json')
    if not os.path.exists(p): return {'findings': [], 'fixed': []}
    return json.load(open(p))

def match_known(pid, q, failed_prop, known):
    for f in known.get('findings', []):
        if f.get('property') != pid: continue
        if f.get('query') and not re.fullmatch(f['query'], q.name): continue
        if f.get('assertion') and f['assertion'] not in failed_prop['desc']: continue
        return f
    return None

# ----------------------------------------------------------------------------- check
def do_check(pid, tier, only=None, keep=False, jobs=None, scratch=None):
    t_start = time.time()
    seed = int(os.environ.get('VERIF_SEED', '1') or 1)
    mod = load_prop(pid)
    # the thorough tier is a superset: it also runs every quick query
    queries = [q for q in mod.queries() if (tier in q.tiers or (tier == 'thorough' and 'quick' in q.tiers)) and (not only or re.search(only, q.name))]
    if os.environ.get('VP_DEEPER_ONLY') == '1': queries = [q for q in queries if 'quick' not in q.tiers]     # debugging: smoke-test the deeper queries alone (writes partial evidence)
    only = only or ('deeper-only' if os.environ.get('VP_DEEPER_ONLY') == '1' else None)
    if tier == 'thorough':
        THOROUGH_DEADLINE[0] = t_start + float(os.environ.get('VP_THOROUGH_BUDGET_S', '7200'))
        # quick queries first, then the deeper ones from cheap to expensive
        queries.sort(key=lambda q: (0 if 'quick' in q.tiers else 1, q.timeout or 900))
    scratch = scratch or os.path.join(os.environ.get('VP_SCRATCH', '/var/tmp'), 'vp.%s.%d' % (pid, os.getpid()))
    ctx = Ctx(scratch, keep)
    results = []
    try:
        # compile the distinct shims first (in parallel), then run the queries
        uniq = {}
        for q in queries: uniq.setdefault(shim_key(q), q)
        for q in uniq.values(): ctx.config(q.config)
        with ThreadPoolExecutor(max_workers=min(8, max(1, len(uniq)))) as ex:
            list(ex.map(lambda q: compile_ll(ctx, q), uniq.values()))
        jobs = jobs or max(1, min(NCPU - 1, int(os.environ.get('VP_JOBS', NCPU - 2))))
        with ThreadPoolExecutor(max_workers=jobs) as ex:
            futs = {ex.submit(run_query, ctx, q, tier): q for q in queries}
            for f in as_completed(futs):
                q = futs[f]
                try: r = f.result()
                except Exception as exn:
                    r = {'q': q, 'verdict': 'error', 'reason': 'driver exception: %s' % traceback.format_exc()[-800:], 'wall': 0}
                results.append(r)
                sys.stderr.write('[%s] %-40s %-12s %6.1fs %s\n' % (pid, q.name, r['verdict'], r.get('wall', 0), (r.get('reason') or '')[:160]))
        results.sort(key=lambda r: [q.name for q in queries].index(r['q'].name))
        known = load_known()
        violations = []; known_hits = []; inconclusive = []; undecided = []; validated = 0
        # translation validation on every run: the witness trace of each decided query (a full path to the end of the harness on which the solver
        # proved every assertion) is replayed against the real library; a native failure on it means the encoding and the real code disagree
        do_wr = os.environ.get('VP_NO_WITNESS_REPLAY') != '1'
        wr_jobs = [r for r in results if do_wr and r['verdict'] in ('holds', 'cex') and r.get('witness_sample') is not None and r['q'].replay]
        def _wr(r):
            try: return replay_native(ctx, r['q'], r['prep'], r['witness_sample'], timeout=120)
            except Exception as exn: return {'status': 'driver-exception: %s' % exn, 'reproduced': False}
        if wr_jobs:
            build_groups = {}
            for r in wr_jobs: build_groups.setdefault(shim_key(r['q']), r)
            for r in build_groups.values(): build_native(ctx, r['q'], r['prep'])      # the shared objects of each shim once, before the pool
            with ThreadPoolExecutor(max_workers=jobs) as ex:
                for r, w in zip(wr_jobs, ex.map(_wr, wr_jobs)): r['witness_replay_info'] = w
        for r in results:
            q = r['q']
            if r['verdict'] in ('error', 'inconclusive', 'vacuous'):
                if tier == 'thorough' and 'quick' not in q.tiers:
                    # thorough tier: a bound that could not be decided inside the time/memory budget is reported as NOT decided (evidence + stderr);
                    # it is neither a success of that query nor a failure of the property on what was explored
                    undecided.append((q.name, r['verdict'], r.get('reason')))
                else:
                    inconclusive.append((q.name, r['verdict'], r.get('reason')))
                continue
            # replay the witness trace of each query against the real library (validates the harness + encoding end to end)
            if r.get('witness_replay_info') is not None:
                w = r['witness_replay_info']
                r['witness_replay'] = w['status']
                if w['status'] == 'passed': validated += 1
                elif w.get('reproduced') and r['verdict'] == 'holds':
                    # every assertion on this path is proved by the solver, yet the real library fails one on the same inputs: the encoding
                    # (translator, model or harness) misrepresents the code -> the query's verdict is not believed
                    (undecided if (tier == 'thorough' and 'quick' not in q.tiers) else inconclusive).append((q.name, 'witness-replay-mismatch', 'native run of the witness trace: %s %s' % (w['status'], '; '.join(w.get('asserts_failed', []))[:300])))
                    continue
            if r['verdict'] == 'cex':
                # group failed properties by description; replay each distinct input vector
                seen_inputs = {}
                for fp in r['failed']:
                    key = repr(fp['inputs'])
                    if key in seen_inputs: fp['replay'] = seen_inputs[key]; continue
                    rp = replay_native(ctx, q, r['prep'], fp['inputs'] or []) if q.replay else {'status': 'no-replay', 'reproduced': False}
                    seen_inputs[key] = rp; fp['replay'] = rp
                reproduced = [fp for fp in r['failed'] if fp['replay'].get('reproduced')]
                not_repro = [fp for fp in r['failed'] if not fp['replay'].get('reproduced')]
                validated += len({repr(fp['inputs']) for fp in reproduced})
                for fp in reproduced:
                    kf = match_known(pid, q, fp, known)
                    if kf: known_hits.append((q, fp, kf))
                    else: violations.append((q, fp))
                if not reproduced or (not_repro and not reproduced):
                    # the solver found an assignment the real library does not reproduce: encoding/stub problem or benign UB
                    (undecided if (tier == 'thorough' and 'quick' not in q.tiers) else inconclusive).append((q.name, 'cex-not-reproduced', '; '.join(sorted({'%s [%s]' % (fp['desc'], fp['replay'].get('status')) for fp in not_repro}))[:600]))
                elif not_repro:
                    r['unreproduced'] = sorted({fp['desc'] for fp in not_repro})
        # ---- report
        rp_dir = os.path.join(os.environ.get('VP_REPLAY_DIR') or os.path.join(VERIF, 'replays'), pid)
        lines = []
        vio_files = []
        if violations:
            os.makedirs(rp_dir, exist_ok=True)
            seen = set()
            for q, fp in violations:
                key = (q.name, repr(fp['inputs']))
                if key in seen: continue
                seen.add(key)
                path = os.path.join(rp_dir, '%s.%s.json' % (re.sub(r'[^A-Za-z0-9_.-]', '_', q.name), hashlib.sha1(repr(fp['inputs']).encode()).hexdigest()[:8]))
                json.dump({'property': pid, 'query': q.name, 'tier': tier, 'inputs': fp['inputs'], 'assertion': fp['desc'],
                           'all_failed_assertions': sorted({f['desc'] for (qq, f) in violations if qq is q and repr(f['inputs']) == repr(fp['inputs'])}),
                           'native_replay': fp['replay']}, open(path, 'w'), indent=1)
                vio_files.append(path)
                lines.append('VIOLATION property=%s replay=%s' % (pid, path))
                sys.stderr.write('  violated: %s :: %s\n    native: %s %s\n' % (q.name, fp['desc'], fp['replay']['status'], fp['replay'].get('asserts_failed')))
        seen_k = set()
        for q, fp, kf in known_hits:
            if kf['id'] in seen_k: continue
            seen_k.add(kf['id'])
            lines.append('KNOWN-FINDING: property=%s %s' % (pid, kf['what']))
        for l in lines: print(l)
        write_evidence(pid, tier, seed, mod, queries, results, violations, known_hits, inconclusive + [(n, 'not-decided:' + k, w) for n, k, w in undecided], validated, time.time() - t_start, partial=bool(only))
        for name, kind, why in inconclusive:
            sys.stderr.write('INCONCLUSIVE %s: %s: %s\n' % (name, kind, why))
        for name, kind, why in undecided:
            sys.stderr.write('NOT-DECIDED (outside the budget of this run, thorough tier) %s: %s\n' % (name, why))
        if violations: return 1
        if inconclusive: return 2
        return 0
    finally:
        if not keep: shutil.rmtree(scratch, ignore_errors=True)

def write_evidence(pid, tier, seed, mod, queries, results, violations, known_hits, inconclusive, validated, wall, partial=False):
    qs = []; fn = set(); evals = 0; nontriv = 0; samples = []; steps = 0; clauses = 0; vars_ = 0; solver_s = 0.0
    assumptions = set(getattr(mod, 'ASSUMPTIONS', []))
    for r in results:
        q = r['q']; c = r.get('cbmc') or {}
        info = (r.get('prep') or {}).get('info') or {}
        fn.update(info.get('functions', []))
        n_ok = len([p for p in c.get('props', []) if p['status'] == 'SUCCESS'])
        evals += r.get('n_props', 0) or 0
        if r['verdict'] in ('holds', 'cex') and r.get('witnesses_reached'): nontriv += 1
        steps += c.get('steps') or 0; clauses += c.get('clauses') or 0; vars_ += c.get('vars') or 0; solver_s += c.get('solver_s') or 0
        qs.append({'query': q.name, 'harness': q.harness, 'shim': q.shim, 'config': q.config, 'defs': q.defs, 'unwind': q.unwind, 'heap_block_capacity_bytes': q.heap_cap,
                   'sat_back_end': q.solver or 'minisat (cbmc default)', 'verdict': r['verdict'], 'reason': r.get('reason') or None, 'assertions_checked': r.get('n_props'), 'assertions_proved': n_ok,
                   'witnesses': r.get('witnesses'), 'witnesses_reached': r.get('witnesses_reached'), 'wall_s': round(r.get('wall', 0), 2),
                   'solver_s': round(c.get('solver_s') or 0, 2), 'symex_steps': c.get('steps'), 'sat_variables': c.get('vars'), 'sat_clauses': c.get('clauses'),
                   'roots': (r.get('prep') or {}).get('roots'), 'bound': q.bound, 'witness_replay': r.get('witness_replay'),
                   'ir_sha1': info.get('ir_sha1'), 'mutable_module_level_objects_in_scope': info.get('mutable_globals'), 'abort_sites_in_scope': sorted(set(info.get('abort_sites', [])))[:40], 'unreproduced': r.get('unreproduced')})
        if r.get('witness_sample') is not None and len(samples) < 12:
            samples.append({'query': q.name, 'bound': q.bound or q.defs, 'witness_input_vector': r['witness_sample'][:64]})
        for m in q.models: assumptions.add('environment model rt/model_%s.c' % m)
        for sname in q.stubs: assumptions.add('functions with prefix %s are left external and modelled (ir2c --stub)' % sname)
        if q.config == 'small': assumptions.add('library build-time parameters rendered small for some queries: ST_MAX_SSO_LENGTH=4, ST_STACK_STRING_SIZE=8 (code unchanged)')
    ev = {
        'property_id': pid, 'tier': tier, 'seed': seed, 'level': getattr(mod, 'LEVEL', 'model_checking'),
        'wall_s': round(wall, 2), 'violations': len({(q.name, repr(fp['inputs'])) for q, fp in violations}),
        'assumptions': sorted(assumptions) + ['clang++-14 -O1 IR of the shim is a faithful compilation of the C++ source; ir2c translation (validated by witness/counterexample replay against the g++ build)',
                                             'CBMC 6.11 bit-precise semantics; --unwinding-assertions on every loop; malloc never returns NULL (--no-malloc-may-fail): allocation failure is modelled only through the operator-new fault injection of rt/model_core.c'],
        'coverage': {
            'evaluations': evals, 'distinct_nontrivial': nontriv,
            'rule': 'evaluations = assertions (harness properties + CBMC built-in memory-safety/UB checks + unwinding assertions) decided by the solver over ALL inputs inside the bound; a query counts as distinct_nontrivial when its reachability witness(es) came back violated, i.e. the end of the harness and the flagged paths are reachable under the assumptions (non-vacuous)',
            'samples': samples or [{'note': 'no witness trace available'}],
            'traces_validated_against_impl': validated,
            'explanation': getattr(mod, 'EXPLANATION', ''),
            'functions_encoded': sorted(fn)[:400], 'functions_encoded_count': len(fn),
            'queries': qs, 'queries_total': len(qs), 'queries_holding': len([r for r in results if r['verdict'] == 'holds']),
            'symex_steps_total': steps, 'sat_variables_total': vars_, 'sat_clauses_total': clauses, 'solver_s_total': round(solver_s, 2),
            'bounds': getattr(mod, 'BOUNDS', {}).get(tier, ''), 'outside_claim': getattr(mod, 'OUTSIDE', ''),
            'inconclusive': [{'query': n, 'kind': k, 'why': w} for n, k, w in inconclusive],
            'known_findings_hit': sorted({kf['id'] for _, _, kf in known_hits}),
            'exhaustive': False,
        },
    }
    evdir = os.environ.get('VP_EVIDENCE_DIR') or os.path.join(VERIF, 'evidence')   # VP_EVIDENCE_DIR: mutant trials must not overwrite committed evidence
    os.makedirs(evdir, exist_ok=True)
    # a run restricted with --only (debugging) must not replace the evidence of the full check
    json.dump(ev, open(os.path.join(evdir, pid + ('.partial.json' if partial else '.json')), 'w'), indent=1, default=str)

# ----------------------------------------------------------------------------- replay command
def do_replay(path):
    d = json.load(open(path))
    pid = d['property']; mod = load_prop(pid)
    q = next((x for x in mod.queries() if x.name == d['query']), None)
    if q is None: print('unknown query', d['query']); return 2
    scratch = os.path.join(os.environ.get('VP_SCRATCH', '/var/tmp'), 'vp.replay.%d' % os.getpid())
    ctx = Ctx(scratch)
    try:
        prep = prepare_query(ctx, q)
        if prep['status'] != 'ok': print('cannot prepare:', prep['reason']); return 2
        r = replay_native(ctx, q, prep, d['inputs'])
        print('replay of %s on the real library: %s' % (d['query'], r['status']))
        print(r['tail'])
        return 1 if r.get('reproduced') else 0
    finally:
        shutil.rmtree(scratch, ignore_errors=True)

def main():
    ap = argparse.ArgumentParser(prog='vp')
    sub = ap.add_subparsers(dest='cmd')
    c = sub.add_parser('check'); c.add_argument('pid'); c.add_argument('--tier', default=os.environ.get('VERIF_TIER', 'quick'))
    c.add_argument('--only'); c.add_argument('--keep', action='store_true'); c.add_argument('-j', type=int); c.add_argument('--scratch')
    r = sub.add_parser('replay'); r.add_argument('path')
    l = sub.add_parser('list'); l.add_argument('pid')
    a = ap.parse_args()
    if a.cmd == 'check':
        sys.exit(do_check(a.pid, a.tier, a.only, a.keep, a.j, a.scratch))
    if a.cmd == 'replay': sys.exit(do_replay(a.path))
    if a.cmd == 'list':
        for q in load_prop(a.pid).queries(): print(q.name, q.tiers, q.harness, q.defs)
        return
    ap.print_help()

if __name__ == '__main__':
    main()

/* model_snprintf.c -- CONTRACT STUB for snprintf(buf, size, "%...", double) as used by the floating-point formatters (C13).
 * libc's rendering cannot be encoded; what the LIBRARY contributes is the printf format it assembles, its fixed buffers, copying and padding.
 * Contract modelled: returns the length L >= 1 of the full rendering (chosen by the harness, bounded by the documented maximum for the
 * conversion), writes min(L, size-1) bytes of that rendering followed by NUL, never more than `size` bytes; the same (format, value) gives
 * the same rendering on every call.  Records the format string and the value it was given. */
#include "vp_rt.h"
#include <stdarg.h>
#ifndef VP_RENDER_MAX
#define VP_RENDER_MAX 80
#endif
uint8_t vp_render[VP_RENDER_MAX + 1]; uint64_t vp_render_len;
uint8_t vp_snp_fmt[8][16]; double vp_snp_val[8]; uint64_t vp_snp_size[8]; int vp_snp_calls;
uint32_t vpx_snprintf(uint8_t *buf, uint64_t size, uint8_t *fmt, ...) {
  va_list ap; va_start(ap, fmt); double v = va_arg(ap, double); va_end(ap);
  int k = vp_snp_calls < 8 ? vp_snp_calls : 7;
  for (int i = 0; i < 16; i++) { VP_ACCESS(fmt + i, 1); vp_snp_fmt[k][i] = fmt[i]; if (!fmt[i]) break; }
  vp_snp_val[k] = v; vp_snp_size[k] = size; vp_snp_calls++;
  uint64_t L = vp_render_len;
  if (size) {
    uint64_t w = L < size - 1 ? L : size - 1;
    VP_ACCESS(buf, w + 1);
    for (uint64_t i = 0; i < VP_RENDER_MAX; i++) if (i < w) buf[i] = vp_render[i];
    buf[w] = 0;
  }
  return (uint32_t)L;
}

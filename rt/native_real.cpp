// native_real.cpp -- runtime for harnesses linked against the REAL library (replay of counterexamples,
// and the "real" side of translation validation).  Provides: the replay input stream, assertion
// accounting, a shadow table of live operator-new blocks (for the object predicates a harness uses),
// single-fault injection into operator new, and classification of escaping C++ exceptions.
#include <cstdio>
#include <cstdlib>
#include <cstring>
#include <cstdint>
#include <new>
#include <stdexcept>
#include <map>
#include "st_assert.h"
#include "vp_rt.h"

extern "C" {
int vp_exc_pending; int vp_exc_kind; void *vp_exc_obj; uint32_t vp_exc_sel;
int vp_live_blocks; int vp_alloc_count; int vp_fail_alloc_at = -1; uint64_t vp_alloc_cap = 4096; int vp_abort_reached;
int vp_nat_tracking = 0;
}

struct blk { size_t n; };
static const int MAXB = 4096;
static void *blk_p[MAXB]; static size_t blk_n[MAXB]; static int blk_cnt;
static void track(void *p, size_t n) { if (blk_cnt < MAXB) { blk_p[blk_cnt] = p; blk_n[blk_cnt] = n; blk_cnt++; } }
static bool untrack(void *p) { for (int i = blk_cnt - 1; i >= 0; --i) if (blk_p[i] == p) { blk_p[i] = blk_p[blk_cnt-1]; blk_n[i] = blk_n[blk_cnt-1]; blk_cnt--; return true; } return false; }

static void *vp_new(size_t n) {
    if (vp_nat_tracking) {
        if (vp_alloc_count++ == vp_fail_alloc_at) throw std::bad_alloc();
        if (n > vp_alloc_cap) {
            std::fprintf(stderr, "VP-ASSERT-FAILED: oversized allocation request (%zu bytes)\n", n);
            std::fflush(stderr); std::_Exit(11);
        }
    }
    void *p = std::malloc(n ? n : 1);
    if (!p) throw std::bad_alloc();
    if (vp_nat_tracking) { track(p, n); vp_live_blocks++; }
    return p;
}
static void vp_del(void *p) {
    if (!p) return;
    if (untrack(p)) vp_live_blocks--;
    std::free(p);
}
void *operator new(size_t n) { return vp_new(n); }
void *operator new[](size_t n) { return vp_new(n); }
void operator delete(void *p) noexcept { vp_del(p); }
void operator delete[](void *p) noexcept { vp_del(p); }
void operator delete(void *p, size_t) noexcept { vp_del(p); }
void operator delete[](void *p, size_t) noexcept { vp_del(p); }

extern "C" {
uint8_t *vpx__Znam(uint64_t n) {
    try { return (uint8_t *)operator new[](n); } catch (std::bad_alloc &) { vp_exc_pending = 1; vp_exc_kind = VP_EXC_BAD_ALLOC; return 0; }
}
void vpx__ZdaPv(uint8_t *p) { operator delete[](p); }
void *vp_heap_alloc(uint64_t n) { return std::malloc(n); }
void vp_heap_free(void *p) { std::free(p); }
void vp_clear_exception(void) { vp_exc_pending = 0; vp_exc_kind = VP_EXC_NONE; }

void vp_native_catch(void) {
    vp_exc_pending = 1;
    try { throw; }
    catch (ST::unicode_error &) { vp_exc_kind = VP_EXC_UNICODE; }
    catch (ST::bad_format &) { vp_exc_kind = VP_EXC_BAD_FORMAT; }
    catch (ST::codec_error &) { vp_exc_kind = VP_EXC_CODEC; }
    catch (std::out_of_range &) { vp_exc_kind = VP_EXC_OUT_OF_RANGE; }
    catch (std::invalid_argument &) { vp_exc_kind = VP_EXC_INVALID_ARGUMENT; }
    catch (std::length_error &) { vp_exc_kind = VP_EXC_LENGTH; }
    catch (std::bad_alloc &) { vp_exc_kind = VP_EXC_BAD_ALLOC; }
    catch (...) { vp_exc_kind = VP_EXC_OTHER; }
}

int vp_nat_heap_exact(const void *p, uint64_t n) { for (int i = 0; i < blk_cnt; ++i) if (blk_p[i] == p) return blk_n[i] == n; return 0; }
int vp_nat_readable(const void *p, uint64_t n) {
    for (int i = 0; i < blk_cnt; ++i) if ((const char *)p >= (const char *)blk_p[i] && (const char *)p + n <= (const char *)blk_p[i] + blk_n[i]) return 1;
    return 2; /* not a tracked heap block: unknown (stack / in-object), treated as readable */
}
int vp_nat_same_object(const void *p, const void *q) {
    for (int i = 0; i < blk_cnt; ++i) {
        const char *b = (const char *)blk_p[i], *e = b + blk_n[i];
        bool ip = (const char *)p >= b && (const char *)p <= e, iq = (const char *)q >= b && (const char *)q <= e;
        if (ip || iq) return ip && iq;
    }
    return p == q;
}
}

#define _GNU_SOURCE 1
/* native_common.c -- native side shared by replay and translation validation:
 * input stream (replay vector or seeded PRNG), assertion accounting, observation hash, main(). */
#include <stdio.h>
#include <stdlib.h>
#include <string.h>
#include <stdint.h>
#include "vp_rt.h"

extern int vp_nat_tracking;
int vp_harness_main(void);
int vp_twice_main(void) __attribute__((weak));   /* linked for -DVP_TWICE queries only (rt/model_twice.c) */
int vp_second_run;

static uint64_t *in_vals; static size_t in_n, in_pos;
static int use_prng; static uint64_t prng;
static int n_fail, n_reach; static uint64_t obs_hash = 1469598103934665603ULL;
static int quiet;

static uint64_t next_raw(void) {
  if (use_prng) {
    /* splitmix64; biased towards small / boundary values so that assumptions are often satisfiable */
    prng += 0x9E3779B97F4A7C15ULL; uint64_t z = prng;
    z = (z ^ (z >> 30)) * 0xBF58476D1CE4E5B9ULL; z = (z ^ (z >> 27)) * 0x94D049BB133111EBULL; z ^= z >> 31;
    switch (z & 7) {
      case 0: return (z >> 8) & 7;
      case 1: return (z >> 8) & 31;
      case 2: return (z >> 8) & 0xff;
      case 3: { static const uint64_t b[] = {0, 1, 0x7f, 0x80, 0xff, 0x7fffffffULL, 0x80000000ULL, 0xffffffffULL, 0x7fffffffffffffffULL, 0x8000000000000000ULL, 0xffffffffffffffffULL, 0xfffffffffffffffeULL}; return b[(z >> 8) % 12]; }
      default: return z >> 3;
    }
  }
  if (in_pos < in_n) return in_vals[in_pos++];
  in_pos++;
  return 0;
}
uint8_t vp_in_u8(void) { return (uint8_t)next_raw(); }
uint16_t vp_in_u16(void) { return (uint16_t)next_raw(); }
uint32_t vp_in_u32(void) { return (uint32_t)next_raw(); }
uint64_t vp_in_u64(void) { return next_raw(); }

static void finish(int code) {
  if (!quiet) printf("VP-RESULT asserts_failed=%d witnesses=%d obs=%016llx inputs_used=%zu exc=%d kind=%d\n", n_fail, n_reach, (unsigned long long)obs_hash, in_pos, vp_exc_pending, vp_exc_kind);
  fflush(stdout); fflush(stderr);
  _Exit(code);
}
void vp_nat_assert_fail(const char *msg, const char *file, int line) {
  n_fail++;
  if (!quiet) printf("VP-ASSERT-FAILED: %s (%s:%d)\n", msg, file, line);
  obs_hash = (obs_hash ^ 0xA55E47u ^ (uint64_t)line) * 1099511628211ULL;
}
void vp_nat_assume_fail(const char *file, int line) {
  if (!quiet) printf("VP-ASSUME-FAILED: %s:%d\n", file, line);
  finish(n_fail ? 1 : 3);
}
void vp_nat_abort(const char *msg) {
  if (!quiet) printf("VP-ABORT: %s\n", msg);
  obs_hash = (obs_hash ^ 0xAB027u) * 1099511628211ULL;
  n_fail++;
  finish(1);
}
void vp_nat_reach(const char *msg) { n_reach++; if (!quiet) printf("VP-WITNESS: %s\n", msg); }
void vp_nat_obs(uint64_t x) { obs_hash = (obs_hash ^ x) * 1099511628211ULL; }

/* ---- C20 support: module-level mutable state by symbol name (function-local statics of inline functions are weak, exported with -rdynamic), and
 * read-only shared objects (a page that is mprotect()ed while the library runs: a store into it faults, which is how a write that leaves the value
 * unchanged -- invisible to any comparison -- is reproduced natively) */
#ifndef _GNU_SOURCE
#define _GNU_SOURCE
#endif
#include <dlfcn.h>
#include <sys/mman.h>
#include <unistd.h>
/* the end of an ABI-guarded one-time initialisation re-takes the snapshot (see rt/model_twice.c): interposed in front of libstdc++'s */
void (*vp_nat_guard_hook)(void);
void __cxa_guard_release(void *g) {
  static void (*real)(void *);
  if (!real) real = (void (*)(void *))dlsym(RTLD_NEXT, "__cxa_guard_release");
  if (real) real(g); else *(unsigned char *)g = 1;
  if (vp_nat_guard_hook) vp_nat_guard_hook();
}
static unsigned char vp_gshadow[8][4096];
int vp_nat_globals(const char *const *names, const unsigned *sizes, int n, int mode) {
  int ok = 1;
  for (int k = 0; k < n && k < 8; k++) {
    void *p = dlsym(RTLD_DEFAULT, names[k]); unsigned sz = sizes[k] < 4096 ? sizes[k] : 4096;
    if (!p) continue;            /* not instantiated in the native build: nothing to compare */
    if (mode == 0) memcpy(vp_gshadow[k], p, sz); else if (memcmp(vp_gshadow[k], p, sz)) ok = 0;
  }
  return ok;
}
void *vp_ro_alloc(uint64_t n) { long ps = sysconf(_SC_PAGESIZE); size_t len = ((n + (size_t)ps) / (size_t)ps) * (size_t)ps; void *p = mmap(0, len, PROT_READ | PROT_WRITE, MAP_PRIVATE | MAP_ANONYMOUS, -1, 0); return p == MAP_FAILED ? 0 : p; }
void vp_ro_seal(void *p, uint64_t n) { long ps = sysconf(_SC_PAGESIZE); size_t len = ((n + (size_t)ps) / (size_t)ps) * (size_t)ps; mprotect(p, len, PROT_READ); }
void vp_ro_unseal(void *p, uint64_t n) { long ps = sysconf(_SC_PAGESIZE); size_t len = ((n + (size_t)ps) / (size_t)ps) * (size_t)ps; mprotect(p, len, PROT_READ | PROT_WRITE); }

int main(int argc, char **argv) {
  /* usage: prog <inputs.txt>   |   prog --seed N [--quiet] */
  if (argc >= 3 && !strcmp(argv[1], "--seed")) { use_prng = 1; prng = strtoull(argv[2], 0, 10); if (argc >= 4) quiet = 0; }
  else if (argc >= 2) {
    FILE *f = fopen(argv[1], "r"); if (!f) { perror(argv[1]); return 2; }
    size_t cap = 1024; in_vals = malloc(cap * sizeof *in_vals);
    unsigned long long v;
    while (fscanf(f, "%llu", &v) == 1) { if (in_n == cap) { cap *= 2; in_vals = realloc(in_vals, cap * sizeof *in_vals); } in_vals[in_n++] = v; }
    fclose(f);
  }
  vp_nat_tracking = 1;
  if (vp_twice_main) vp_twice_main(); else vp_harness_main();
  finish(n_fail ? 1 : 0);
  return 0;
}

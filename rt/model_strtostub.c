/* model_strtostub.c -- CONTRACT STUB for the C library's strtol family and strtod/strtof (C12/C13 parsing direction).
 * The library only forwards to these functions; their bodies are libc, not string_theory.  The stub returns an ARBITRARY value (chosen by
 * the harness) and an ARBITRARY end pointer inside [nptr, nptr + strlen(nptr)] -- the documented contract -- and records what it was given. */
#include "vp_rt.h"
int64_t vp_stub_sval; uint64_t vp_stub_uval; double vp_stub_dval; float vp_stub_fval;
uint64_t vp_stub_end; uint32_t vp_stub_base_seen; int vp_stub_calls; uint8_t *vp_stub_nptr_seen; int vp_stub_endptr_null;
static void stub_common(uint8_t *nptr, uint8_t **endptr, uint32_t base) {
  vp_stub_calls++; vp_stub_nptr_seen = nptr; vp_stub_base_seen = base; vp_stub_endptr_null = endptr == 0;
  uint64_t len = 0; for (;;) { VP_ACCESS(nptr + len, 1); if (!nptr[len]) break; len++; }   /* the subject must be NUL-terminated inside its object */
  VP_ASSUME(vp_stub_end <= len);
  if (endptr) *endptr = nptr + vp_stub_end;
}
int64_t vpx_strtol(uint8_t *n, uint8_t **e, uint32_t b) { stub_common(n, e, b); return vp_stub_sval; }
int64_t vpx_strtoll(uint8_t *n, uint8_t **e, uint32_t b) { stub_common(n, e, b); return vp_stub_sval; }
uint64_t vpx_strtoul(uint8_t *n, uint8_t **e, uint32_t b) { stub_common(n, e, b); return vp_stub_uval; }
uint64_t vpx_strtoull(uint8_t *n, uint8_t **e, uint32_t b) { stub_common(n, e, b); return vp_stub_uval; }
double vpx_strtod(uint8_t *n, uint8_t **e) { stub_common(n, e, 0); return vp_stub_dval; }
float vpx_strtof(uint8_t *n, uint8_t **e) { stub_common(n, e, 0); return vp_stub_fval; }

/* model_libc.c -- the few libc routines std::char_traits lowers to (straight C loops). */
#include "vp_rt.h"
uint8_t *vpx_memchr(uint8_t *s, uint32_t c, uint64_t n) {
  for (uint64_t i = 0; i < n; i++) { VP_ACCESS(s + i, 1); if (s[i] == (uint8_t)c) return s + i; }
  return 0;
}
uint32_t vpx_memcmp(uint8_t *a, uint8_t *b, uint64_t n) {
  for (uint64_t i = 0; i < n; i++) { VP_ACCESS(a + i, 1); VP_ACCESS(b + i, 1); if (a[i] != b[i]) return a[i] < b[i] ? (uint32_t)-1 : 1; }
  return 0;
}
uint32_t vpx_bcmp(uint8_t *a, uint8_t *b, uint64_t n) { return vpx_memcmp(a, b, n); }
uint64_t vpx_strlen(uint8_t *s) { uint64_t n = 0; for (;;) { VP_ACCESS(s + n, 1); if (!s[n]) break; n++; } return n; }
/* wide char_traits helpers (wchar_t is 32-bit here) */
uint64_t vpx_wcslen(uint32_t *s) { uint64_t n = 0; for (;;) { VP_ACCESS(s + n, 4); if (!s[n]) break; n++; } return n; }
uint32_t *vpx_wmemcpy(uint32_t *d, uint32_t *s, uint64_t n) { vp_memcpy_u32(d, s, n * 4); return d; }
uint32_t *vpx_wmemmove(uint32_t *d, uint32_t *s, uint64_t n) { vp_memmove_u32(d, s, n * 4); return d; }
uint32_t *vpx_wmemset(uint32_t *d, uint32_t c, uint64_t n) { if (n) VP_ACCESS(d, n * 4); for (uint64_t i = 0; i < n; i++) d[i] = c; return d; }
uint32_t vpx_wmemcmp(uint32_t *a, uint32_t *b, uint64_t n) {
  for (uint64_t i = 0; i < n; i++) { VP_ACCESS(a + i, 4); VP_ACCESS(b + i, 4); if (a[i] != b[i]) return (int32_t)a[i] < (int32_t)b[i] ? (uint32_t)-1 : 1; }
  return 0;
}
uint32_t *vpx_wmemchr(uint32_t *s, uint32_t c, uint64_t n) { for (uint64_t i = 0; i < n; i++) { VP_ACCESS(s + i, 4); if (s[i] == c) return s + i; } return 0; }
/* further <cstring> routines a (changed) library may reach for */
uint8_t *vpx_strchr(uint8_t *s, uint32_t c) { for (uint64_t i = 0;; i++) { VP_ACCESS(s + i, 1); if (s[i] == (uint8_t)c) return s + i; if (!s[i]) return 0; } }
uint8_t *vpx_strrchr(uint8_t *s, uint32_t c) { uint8_t *r = 0; for (uint64_t i = 0;; i++) { VP_ACCESS(s + i, 1); if (s[i] == (uint8_t)c) r = s + i; if (!s[i]) return r; } }
uint32_t vpx_strcmp(uint8_t *a, uint8_t *b) { for (uint64_t i = 0;; i++) { VP_ACCESS(a + i, 1); VP_ACCESS(b + i, 1); if (a[i] != b[i]) return a[i] < b[i] ? (uint32_t)-1 : 1; if (!a[i]) return 0; } }
uint32_t vpx_strncmp(uint8_t *a, uint8_t *b, uint64_t n) { for (uint64_t i = 0; i < n; i++) { VP_ACCESS(a + i, 1); VP_ACCESS(b + i, 1); if (a[i] != b[i]) return a[i] < b[i] ? (uint32_t)-1 : 1; if (!a[i]) return 0; } return 0; }
uint8_t *vpx_memrchr(uint8_t *s, uint32_t c, uint64_t n) { for (uint64_t i = n; i > 0; i--) { VP_ACCESS(s + i - 1, 1); if (s[i - 1] == (uint8_t)c) return s + i - 1; } return 0; }

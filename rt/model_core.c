/* model_core.c -- environment model for the C++ runtime pieces every translated unit needs:
 * exceptions, operator new/delete with single-fault injection and leak accounting, terminate.
 * Compiled by CBMC together with the generated C; also compiled natively (VP_NATIVE_MODEL)
 * for translation validation. */
#include "vp_rt.h"

int vp_exc_pending; int vp_exc_kind; void *vp_exc_obj; uint32_t vp_exc_sel;
int vp_live_blocks; int vp_alloc_count; int vp_fail_alloc_at = -1;
uint64_t vp_alloc_cap = VP_HEAP_CAP;
int vp_abort_reached;

void vp_throw(void *obj, int kind) { vp_exc_pending = 1; vp_exc_kind = kind; vp_exc_obj = obj; }
void vp_clear_exception(void) { vp_exc_pending = 0; vp_exc_kind = VP_EXC_NONE; vp_exc_obj = 0; }
void vp_abort_allowed(void) { vp_abort_reached = 1; VP_ASSUME(0); }

#ifndef __CPROVER__
void vp_nat_track_alloc(void *p, uint64_t n);
void vp_nat_track_free(void *p);
void *vp_heap_alloc(uint64_t n) { return malloc(n ? n : 1); }
void vp_heap_free(void *p) { free(p); }
#else
/* constant-capacity block, logical size in a side table (see vp_rt.h) */
const void *vp_ro_base[VP_MAX_RO]; uint64_t vp_ro_len[VP_MAX_RO]; int vp_ro_n;
const void *vp_blk_base[VP_MAX_BLOCKS]; uint64_t vp_blk_len[VP_MAX_BLOCKS]; int vp_blk_n;
void *vp_heap_alloc(uint64_t n) {
  VP_ASSERT(n <= VP_HEAP_CAP, "oversized allocation request");
  VP_ASSUME(n <= VP_HEAP_CAP);
  uint8_t *b = malloc(VP_HEAP_CAP);
  VP_ASSUME(b != 0);
  VP_ASSERT(vp_blk_n < VP_MAX_BLOCKS, "more heap blocks than the access model tracks (harness bound VP_MAX_BLOCKS)");
  VP_ASSUME(vp_blk_n < VP_MAX_BLOCKS);
  vp_blk_base[vp_blk_n] = b; vp_blk_len[vp_blk_n] = n; vp_blk_n++;
  return b;
}
void vp_heap_free(void *p) {
  if (!p) return;
  VP_ASSERT(__CPROVER_DYNAMIC_OBJECT(p) && __CPROVER_POINTER_OFFSET(p) == VP_HDR, "free/delete of a pointer that is not the start of a heap block (in-object or interior storage)");
  free(p);
}
#endif

/* operator new[](size_t) */
uint8_t *vpx__Znam(uint64_t n) {
  if (vp_alloc_count++ == vp_fail_alloc_at) { vp_throw(0, VP_EXC_BAD_ALLOC); return 0; }
  /* the cap is asserted, never assumed: an absurd request is a finding, not an excluded input */
  VP_ASSERT(n <= vp_alloc_cap, "oversized allocation request");
  VP_ASSUME(n <= vp_alloc_cap);
  uint8_t *p = vp_heap_alloc(n);
#ifndef __CPROVER__
  vp_nat_track_alloc(p, n);
#endif
  vp_live_blocks++;
  return p;
}
uint8_t *vpx__Znwm(uint64_t n) { return vpx__Znam(n); }
void vpx__ZdaPv(uint8_t *p) {
  if (p) {
    vp_live_blocks--;
#ifndef __CPROVER__
    vp_nat_track_free(p);
#endif
    vp_heap_free(p);
  }
}
void vpx__ZdlPv(uint8_t *p) { vpx__ZdaPv(p); }
void vpx__ZdlPvm(uint8_t *p, uint64_t n) { vpx__ZdaPv(p); }
void vpx__ZdaPvm(uint8_t *p, uint64_t n) { vpx__ZdaPv(p); }

uint8_t *vpx___cxa_allocate_exception(uint64_t n) { return vp_heap_alloc(n); }
void vpx___cxa_free_exception(uint8_t *p) { vp_heap_free(p); }
uint8_t *vpx___cxa_begin_catch(uint8_t *p) { vp_clear_exception(); return p; }
void vpx___cxa_end_catch(void) { }
void vpx__ZSt9terminatev(void) { VP_ASSERT(0, "std::terminate reached (exception escaped a noexcept function)"); VP_ASSUME(0); }
void vpx___cxa_pure_virtual(void) { VP_ASSERT(0, "pure virtual call"); VP_ASSUME(0); }

/* libstdc++ throw helpers */
void vpx__ZSt17__throw_bad_allocv(void) { vp_throw(0, VP_EXC_BAD_ALLOC); }
void vpx__ZSt28__throw_bad_array_new_lengthv(void) { vp_throw(0, VP_EXC_BAD_ALLOC); }
void vpx___cxa_throw_bad_array_new_length(void) { vp_throw(0, VP_EXC_BAD_ALLOC); }
void vpx__ZSt20__throw_length_errorPKc(uint8_t *m) { vp_throw(0, VP_EXC_LENGTH); }
void vpx__ZSt20__throw_out_of_rangePKc(uint8_t *m) { vp_throw(0, VP_EXC_OUT_OF_RANGE); }
void vpx__ZSt19__throw_logic_errorPKc(uint8_t *m) { vp_throw(0, VP_EXC_OTHER); }

/* exception class constructors/destructors from libstdc++: message text is not observed */
void vpx__ZNSt13runtime_errorC2EPKc(void *t, uint8_t *m) { }
void vpx__ZNSt13runtime_errorC1EPKc(void *t, uint8_t *m) { }
void vpx__ZNSt13runtime_errorD2Ev(void *t) { }
void vpx__ZNSt13runtime_errorD1Ev(void *t) { }
uint8_t *vpx__ZNKSt13runtime_error4whatEv(void *t) { return 0; }
void vpx__ZNSt16invalid_argumentC1EPKc(void *t, uint8_t *m) { }
void vpx__ZNSt16invalid_argumentC2EPKc(void *t, uint8_t *m) { }
void vpx__ZNSt16invalid_argumentD1Ev(void *t) { }
void vpx__ZNSt16invalid_argumentD2Ev(void *t) { }
void vpx__ZNSt12out_of_rangeC1EPKc(void *t, uint8_t *m) { }
void vpx__ZNSt12out_of_rangeC2EPKc(void *t, uint8_t *m) { }
void vpx__ZNSt12out_of_rangeD1Ev(void *t) { }
void vpx__ZNSt12out_of_rangeD2Ev(void *t) { }
uint8_t *vpx__ZNKSt11logic_error4whatEv(void *t) { return 0; }

/* ---- memcpy/memmove/memset with symbolic length: explicit element loops (see ir2c.py) ---- */
#ifdef __CPROVER__
#define VP_BACKWARD(d, s) (__CPROVER_same_object((d), (s)) && __CPROVER_POINTER_OFFSET(d) > __CPROVER_POINTER_OFFSET(s))
#else
#define VP_BACKWARD(d, s) ((uintptr_t)(d) > (uintptr_t)(s))
#endif
#define VP_MEMOPS(W, T)                                                                              \
  void vp_memcpy_u##W(T *d, const T *s, uint64_t n) {                                                \
    VP_ASSERT(n % sizeof(T) == 0, "memcpy length is a multiple of the element size");               \
    if (n) { VP_ACCESS_W(d, n); VP_ACCESS(s, n); }                                                   \
    for (uint64_t i = 0; i < n / sizeof(T); i++) d[i] = s[i];                                        \
  }                                                                                                  \
  void vp_memmove_u##W(T *d, const T *s, uint64_t n) {                                               \
    VP_ASSERT(n % sizeof(T) == 0, "memmove length is a multiple of the element size");              \
    if (n) { VP_ACCESS_W(d, n); VP_ACCESS(s, n); }                                                   \
    uint64_t k = n / sizeof(T);                                                                      \
    if (d == s) return;                                                                              \
    if (VP_BACKWARD(d, s)) { for (uint64_t i = k; i > 0; i--) d[i - 1] = s[i - 1]; }                 \
    else { for (uint64_t i = 0; i < k; i++) d[i] = s[i]; }                                           \
  }                                                                                                  \
  void vp_memset_u##W(T *d, uint8_t c, uint64_t n) {                                                 \
    VP_ASSERT(n % sizeof(T) == 0, "memset length is a multiple of the element size");               \
    if (n) { VP_ACCESS_W(d, n); }                                                                    \
    T v = 0; for (unsigned b = 0; b < sizeof(T); b++) v = (T)((v << 8) | c);                         \
    for (uint64_t i = 0; i < n / sizeof(T); i++) d[i] = v;                                           \
  }
VP_MEMOPS(8, uint8_t)
VP_MEMOPS(16, uint16_t)
VP_MEMOPS(32, uint32_t)
VP_MEMOPS(64, uint64_t)

/* one-time initialisation of function-local statics (Itanium ABI guards) and at-exit registration */
uint32_t vpx___cxa_guard_acquire(uint64_t *g) { if (*(uint8_t *)g) return 0; return 1; }
#ifdef __CPROVER__
void vp_globals_snapshot(void);     /* generated with the translated code */
#endif
/* the end of an ABI-guarded one-time initialisation: what it wrote to module-level state is accepted (C20: every OTHER write is not) */
void vpx___cxa_guard_release(uint64_t *g) {
  *(uint8_t *)g = 1;
#ifdef __CPROVER__
  vp_globals_snapshot();
#endif
}
void vpx___cxa_guard_abort(uint64_t *g) { (void)g; }
uint32_t vpx___cxa_atexit(void *f, void *a, void *d) { (void)f; (void)a; (void)d; return 0; }

/* vp_rt.h -- runtime interface shared by generated C (ir2c), the environment models and the harnesses.
 * Three build modes:
 *   __CPROVER__            : CBMC (symbolic)               -- asserts/assumes are CBMC primitives
 *   VP_NATIVE_MODEL        : gcc build of the generated C   -- translation validation
 *   VP_NATIVE_REAL         : harness linked to the real g++ build of the shim -- replay of counterexamples
 */
#ifndef VP_RT_H
#define VP_RT_H
#include <stdint.h>
#include <stddef.h>
#ifndef VP_OBJECT_BITS
#define VP_OBJECT_BITS 8   /* cbmc --object-bits (default 8): the offset field has 64-8 bits */
#endif
#ifdef __cplusplus
extern "C" {
#endif

void *memcpy(void *, const void *, size_t);
void *memmove(void *, const void *, size_t);
void *memset(void *, int, size_t);
void *malloc(size_t);
void free(void *);

enum {
  VP_EXC_NONE = 0, VP_EXC_UNICODE, VP_EXC_BAD_FORMAT, VP_EXC_CODEC, VP_EXC_OUT_OF_RANGE,
  VP_EXC_INVALID_ARGUMENT, VP_EXC_BAD_ALLOC, VP_EXC_LENGTH, VP_EXC_OTHER
};

/* pending C++ exception (the translator lowers throw/invoke/landingpad/resume onto these) */
extern int vp_exc_pending;
extern int vp_exc_kind;
extern void *vp_exc_obj;
extern uint32_t vp_exc_sel;
/* allocation bookkeeping */
extern int vp_live_blocks;      /* operator new/new[] blocks not yet deleted */
extern int vp_alloc_count;      /* number of operator new/new[] calls so far */
extern int vp_fail_alloc_at;    /* the allocation with this index throws std::bad_alloc (-1: none) */
extern uint64_t vp_alloc_cap;   /* requests above this are reported as "oversized allocation request" */
extern int vp_abort_reached;

/* element loops used for memcpy/memmove/memset with a SYMBOLIC length (n is always in bytes) */
void vp_memcpy_u8(uint8_t *d, const uint8_t *s, uint64_t n);
void vp_memcpy_u16(uint16_t *d, const uint16_t *s, uint64_t n);
void vp_memcpy_u32(uint32_t *d, const uint32_t *s, uint64_t n);
void vp_memcpy_u64(uint64_t *d, const uint64_t *s, uint64_t n);
void vp_memmove_u8(uint8_t *d, const uint8_t *s, uint64_t n);
void vp_memmove_u16(uint16_t *d, const uint16_t *s, uint64_t n);
void vp_memmove_u32(uint32_t *d, const uint32_t *s, uint64_t n);
void vp_memmove_u64(uint64_t *d, const uint64_t *s, uint64_t n);
void vp_memset_u8(uint8_t *d, uint8_t c, uint64_t n);
void vp_memset_u16(uint16_t *d, uint8_t c, uint64_t n);
void vp_memset_u32(uint32_t *d, uint8_t c, uint64_t n);
void vp_memset_u64(uint64_t *d, uint8_t c, uint64_t n);

/* ---- heap model (CBMC): every dynamic object is a block of CONSTANT capacity VP_HEAP_CAP (the LOGICAL size that was
 * requested is kept in a side table indexed by CBMC's object number; a header inside the block made every write alias it).  Symbolic-size objects put CBMC into its unbounded array theory (measured: 2.5 M SAT
 * variables / 17 s for a 5-byte conversion, against 0.43 M / 1.6 s with constant-size blocks).  Exactness of bounds checking
 * is kept by instrumenting every load/store/memcpy of the translated code with VP_ACCESS: offset + width <= logical size.
 * A request above the capacity is an ASSERTION failure ("oversized allocation request"), never an assumption. */
#ifndef VP_HEAP_CAP
#define VP_HEAP_CAP 64
#endif
#define VP_HDR 0
void *vp_heap_alloc(uint64_t n);
void vp_heap_free(void *p);

void vp_throw(void *obj, int kind);
void vp_abort_allowed(void);
void vp_clear_exception(void);

#ifdef __CPROVER__
#define VP_ASSERT(c, m) __CPROVER_assert((c), m)
#define VP_ASSUME(c) __CPROVER_assume(c)
#define VP_OVERFLOW_plus(a, b) __CPROVER_overflow_plus(a, b)
#define VP_OVERFLOW_minus(a, b) __CPROVER_overflow_minus(a, b)
#define VP_OVERFLOW_mult(a, b) __CPROVER_overflow_mult(a, b)
/* __CPROVER_POINTER_OFFSET is unsigned in CBMC 6: one-before-the-start (the library's `--cp >= begin` idiom) must compare as -1 */
/* signed offset, sign-extended from the offset field: CBMC yields 2^56-1 or 2^64-1 for one-before-the-start depending on whether the
 * expression simplifier or the bit-level encoding evaluates it (both measured) */
#define VP_POFF(p) (((int64_t)((uint64_t)__CPROVER_POINTER_OFFSET(p) << VP_OBJECT_BITS)) >> VP_OBJECT_BITS)
/* ptrtoint.  Requirements (each one measured on cbmc 6.11, see DESIGN.md 2.2):
 *  (a) an in-bounds pointer must survive pointer -> integer -> memory -> pointer (std::function keeps captured pointers in integer fields),
 *      so the value must be CBMC's own bit pattern of the pointer;
 *  (b) differences must be exact for the library's one-before-the-start idiom (`--cp >= begin`, then `cp - begin + 1`), where CBMC's
 *      own cast wraps the offset inside its 56-bit field.
 * Both hold for: bits(start of the object) + signed offset, evaluated through local variables (as ONE expression the simplifier
 * rewrites it back into the wrapping form). */
static inline uint64_t vp_ptoi(const void *p) {
  int64_t o = VP_POFF(p);
  const char *b = (const char *)p - o;
  uint64_t bb = (uint64_t)(uintptr_t)b;
  return bb + (uint64_t)o;
}
#define VP_PTOI(p) vp_ptoi(p)
#define VP_ABORT(m) do { __CPROVER_assert(0, m); __CPROVER_assume(0); } while (0)
/* logical sizes: a short list of (block start, requested size) filled by vp_heap_alloc.  (A table indexed by CBMC's object number cost a
 * 256 x 64-bit multiplexer per memory access: measured 2.5 M SAT variables for replace() on 3 bytes, most of them this lookup.) */
#ifndef VP_MAX_BLOCKS
#define VP_MAX_BLOCKS 8
#endif
extern const void *vp_blk_base[VP_MAX_BLOCKS]; extern uint64_t vp_blk_len[VP_MAX_BLOCKS]; extern int vp_blk_n;
#define VP_BLK_(k, p) ((k) < vp_blk_n && __CPROVER_same_object((p), vp_blk_base[k])) ? vp_blk_len[k] :
#define VP_LOGICAL_SIZE(p) (VP_BLK_(0, p) VP_BLK_(1, p) VP_BLK_(2, p) VP_BLK_(3, p) VP_BLK_(4, p) VP_BLK_(5, p) VP_BLK_(6, p) VP_BLK_(7, p) (uint64_t)0)
#define VP_ACCESS_OK(p, s) (!__CPROVER_DYNAMIC_OBJECT(p) || (VP_POFF(p) >= 0 && (uint64_t)VP_POFF(p) + (uint64_t)(s) <= VP_LOGICAL_SIZE(p)))
#define VP_ACCESS(p, s) __CPROVER_assert(VP_ACCESS_OK((p), (s)), "memory access stays inside the bounds of its heap block")
/* read-only regions (C20): objects that are shared between threads and only passed through const interfaces are registered here by the harness;
 * every STORE of the translated code (and of the memcpy/memset models) is checked against them -- a write of an unchanged value is still a write (a data race) */
#define VP_MAX_RO 3
extern const void *vp_ro_base[VP_MAX_RO]; extern uint64_t vp_ro_len[VP_MAX_RO]; extern int vp_ro_n;
#define VP_RO_HIT_(k, p, s) ((k) < vp_ro_n && __CPROVER_same_object((p), vp_ro_base[k]) && VP_POFF(p) < VP_POFF(vp_ro_base[k]) + (int64_t)vp_ro_len[k] && VP_POFF(p) + (int64_t)(s) > VP_POFF(vp_ro_base[k]))
#define VP_ACCESS_W(p, s) do { VP_ACCESS((p), (s)); __CPROVER_assert(!(VP_RO_HIT_(0, (p), (s)) || VP_RO_HIT_(1, (p), (s)) || VP_RO_HIT_(2, (p), (s))), "no write to an object that is only passed through const interfaces (shared read-only state)"); } while (0)
#else
#define VP_ACCESS(p, s) ((void)0)
#define VP_ACCESS_W(p, s) ((void)0)
void vp_nat_assert_fail(const char *msg, const char *file, int line);
void vp_nat_assume_fail(const char *file, int line);
void vp_nat_abort(const char *msg);
#define VP_ASSERT(c, m) do { if (!(c)) vp_nat_assert_fail(m, __FILE__, __LINE__); } while (0)
#define VP_ASSUME(c) do { if (!(c)) vp_nat_assume_fail(__FILE__, __LINE__); } while (0)
#define VP_OVERFLOW_plus(a, b) __builtin_add_overflow_p(a, b, (__typeof__((a) + (b)))0)
#define VP_OVERFLOW_minus(a, b) __builtin_sub_overflow_p(a, b, (__typeof__((a) - (b)))0)
#define VP_OVERFLOW_mult(a, b) __builtin_mul_overflow_p(a, b, (__typeof__((a) * (b)))0)
#define VP_POFF(p) ((intptr_t)(p))
#define VP_PTOI(p) ((uint64_t)(uintptr_t)(p))
#define VP_ABORT(m) vp_nat_abort(m)
#endif

#ifdef __cplusplus
}
#endif
#endif

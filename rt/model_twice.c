/* model_twice.c -- C20, "independent work, run twice": the harness body of ANY property is executed twice on independent inputs.  The first run is
 * the check it always was.  Module-level mutable objects of the translated library code are snapshotted before the first run and again at the end of
 * every ABI-guarded one-time initialisation (__cxa_guard_release): after EACH run they must be bit-identical to the last snapshot, i.e. the only
 * writes a library call makes to module-level state are guarded one-time initialisations -- no counters, caches, scratch buffers or hand-rolled lazy
 * initialisation.  Between the runs the bookkeeping of the environment models is reset (it is not program state). */
#include "vp_harness.h"
#include "k.h"
int vp_harness_main(void);
int vp_twice_main(void) {
  vp_globals_snapshot();
  vp_harness_main();
  ASSERT(vp_globals_unchanged(), "module-level mutable state is written only inside ABI-guarded one-time initialisation (first run of the operations)");
  vp_second_run = 1;
#ifdef __CPROVER__
  vp_blk_n = 0; vp_ro_n = 0;          /* access-model tables: the first run's thread-local objects are gone */
#endif
  vp_live_blocks = 0; vp_alloc_count = 0; vp_fail_alloc_at = -1; vp_clear_exception();
  vp_harness_main();
  vp_second_run = 0;
  ASSERT(vp_globals_unchanged(), "module-level mutable state is identical after a second, independent run of the same operations (no hidden shared state)");
  REACH("end of the second run");
  return 0;
}

/* vp_harness.h -- what a harness may use.  The same harness source is
 *   (a) handed to CBMC together with the generated C  -> inputs are symbolic, ASSERT is a proof obligation
 *   (b) compiled natively against the real library     -> inputs come from a replay vector, ASSERT is a runtime check
 * so a solver counterexample is replayed by running the very same assertions against the real code. */
#ifndef VP_HARNESS_H
#define VP_HARNESS_H
#include "vp_rt.h"

/* ---- inputs: every symbolic value enters through one of these four functions (the driver
 * reads their return values out of the CBMC trace, in call order, to build the replay vector) */
uint8_t vp_in_u8(void);
uint16_t vp_in_u16(void);
uint32_t vp_in_u32(void);
uint64_t vp_in_u64(void);

/* -DVP_TWICE (C20): the harness body runs twice on independent inputs (rt/model_twice.c); the second run only has to leave the module-level state
 * alone -- its own assertions and witnesses were already decided by the first run and are switched off */
extern int vp_second_run;
#ifdef VP_TWICE
#define VP_RUN1 (!vp_second_run)
#else
#define VP_RUN1 1
#endif
#ifdef __CPROVER__
#define ASSERT(c, m) __CPROVER_assert(!VP_RUN1 || (c), m)
#define ASSUME(c) __CPROVER_assume(c)
/* reachability witness: MUST come back violated, otherwise the harness is vacuous */
#define REACH(m) __CPROVER_assert(!VP_RUN1, "witness: " m)
/* p is the base of a live heap object of exactly n bytes */
#define VP_HEAP_EXACT(p, n) (__CPROVER_DYNAMIC_OBJECT(p) && __CPROVER_POINTER_OFFSET(p) == VP_HDR && VP_LOGICAL_SIZE(p) == (uint64_t)(n) && __CPROVER_r_ok((p), 1))
#define VP_READABLE(p, n) __CPROVER_r_ok((p), (n))
#define VP_SAME_OBJECT(p, q) __CPROVER_same_object((p), (q))
#define VP_OBS(x) ((void)0)
#else
void vp_nat_assert_fail(const char *msg, const char *file, int line);
void vp_nat_assume_fail(const char *file, int line);
void vp_nat_reach(const char *msg);
int vp_nat_heap_exact(const void *p, uint64_t n);
int vp_nat_readable(const void *p, uint64_t n);
int vp_nat_same_object(const void *p, const void *q);
void vp_nat_obs(uint64_t x);
#define ASSERT(c, m) do { if (VP_RUN1 && !(c)) vp_nat_assert_fail(m, __FILE__, __LINE__); } while (0)
#define ASSUME(c) do { if (!(c)) vp_nat_assume_fail(__FILE__, __LINE__); } while (0)
#define REACH(m) do { if (VP_RUN1) vp_nat_reach(m); } while (0)
#define VP_HEAP_EXACT(p, n) vp_nat_heap_exact((p), (n))
#define VP_READABLE(p, n) vp_nat_readable((p), (n))
#define VP_SAME_OBJECT(p, q) vp_nat_same_object((p), (q))
#define VP_OBS(x) vp_nat_obs((uint64_t)(x))
#endif

/* allocation through the (modelled or real) operator new[] / delete[] */
uint8_t *vpx__Znam(uint64_t n);
void vpx__ZdaPv(uint8_t *p);

/* exactly-sized input object: any read past it is a bounds violation (CBMC) / ASan report (native) */
static inline void *vp_exact(uint64_t bytes) {
  void *p = vp_heap_alloc(bytes);
#ifndef __CPROVER__
  ASSUME(p != 0);
#endif
  return p;
}

/* ST::buffer<T>::local_length for an element of sz bytes under the rendered configuration */
#define LOCAL_LEN(sz) ((VP_SSO * (sz)) > VP_SSO_SIZE ? VP_SSO_SIZE / (sz) : VP_SSO)

#define VP_EXC(kind) (vp_exc_pending && vp_exc_kind == (kind))

/* ------------------------------------------------------------------------------------------
 * ST::buffer<T> / ST::string state objects built directly (no constructor call): an arbitrary
 * VALID state, i.e. one satisfying the representation invariant Inv of DESIGN.md C05.
 * BUF_T is the translated struct { T *f0 (m_chars); uint64 f1 (m_size); struct { T a[L]; } f2 (m_data) }.
 * ------------------------------------------------------------------------------------------ */
#define VP_BUF_HELPERS(PFX, BUF_T, ELEM_T, L, MAXS)                                              \
  /* heap: 1 = heap storage only (size >= L), 0 = in-object only, -1 = both (symbolic); a fixed mode keeps every data     \
   * pointer single-target, which makes nested scanning loops several times cheaper */                                \
  static void PFX##_mk_n(BUF_T *b, ELEM_T *shadow, int heap, uint64_t n);                        \
  static void PFX##_mk_mode(BUF_T *b, ELEM_T *shadow, int heap) {                                \
    uint64_t n = vp_in_u64();                                                                    \
    ASSUME(n <= (MAXS));                                                                         \
    PFX##_mk_n(b, shadow, heap, n);                                                              \
  }                                                                                              \
  /* size given by the caller: with a CONCRETE n every index, loop bound and the storage mode are concrete */       \
  static void PFX##_mk_n(BUF_T *b, ELEM_T *shadow, int heap, uint64_t n) {                       \
    b->f1 = n;                                                                                   \
    /* in-object array: arbitrary bytes (stale data is allowed by Inv) */                        \
    for (int i = 0; i < (L); i++) b->f2.a[i] = (ELEM_T)vp_in_u8();                               \
    if (heap == 1) { ASSUME(n >= (L)); b->f0 = (ELEM_T *)vpx__Znam((n + 1) * sizeof(ELEM_T)); }  \
    else if (heap == 0) { ASSUME(n < (L)); b->f0 = b->f2.a; }                                    \
    else if (n >= (L)) b->f0 = (ELEM_T *)vpx__Znam((n + 1) * sizeof(ELEM_T));                    \
    else b->f0 = b->f2.a;                                                                        \
    for (uint64_t i = 0; i < (MAXS); i++) if (i < n) {                                           \
      ELEM_T c = (ELEM_T)(sizeof(ELEM_T) == 1 ? vp_in_u8() : sizeof(ELEM_T) == 2 ? vp_in_u16() : vp_in_u32()); \
      b->f0[i] = c; shadow[i] = c;                                                               \
    }                                                                                            \
    b->f0[n] = 0;                                                                                \
  }                                                                                              \
  static void PFX##_mk(BUF_T *b, ELEM_T *shadow) { PFX##_mk_mode(b, shadow, -1); }               \
  static int PFX##_inv(const BUF_T *b) {                                                         \
    if (b->f1 < (L)) return b->f0 == b->f2.a && b->f2.a[b->f1] == 0;                             \
    if (b->f1 > (uint64_t)1 << 20) return 0;                                                     \
    return VP_HEAP_EXACT(b->f0, (b->f1 + 1) * sizeof(ELEM_T)) && b->f0[b->f1] == 0;              \
  }                                                                                              \
  static int PFX##_eq(const BUF_T *b, const ELEM_T *shadow, uint64_t n) {                        \
    if (b->f1 != n) return 0;                                                                    \
    for (uint64_t i = 0; i < (MAXS); i++) if (i < n && b->f0[i] != shadow[i]) return 0;          \
    return 1;                                                                                    \
  }                                                                                              \
  static void PFX##_destroy(BUF_T *b) { if (b->f1 >= (L)) vpx__ZdaPv((uint8_t *)b->f0); }

#endif

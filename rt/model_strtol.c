/* model_strtol.c -- glibc-faithful model of strtol for an explicit base 2..36 (the format parser uses base 10; the 16-bit round trip of C12 uses the others; for bases 16 and 2 an optional 0x/0b prefix is NOT modelled: never produced by from_int): skips isspace() characters,
 * accepts one optional sign, consumes decimal digits, clamps to LONG_MAX / LONG_MIN on overflow (errno is not observed by the
 * library), stores the end pointer (== nptr when no digits were consumed).  Every byte it examines is read through VP_ACCESS, so a
 * scan past the terminating NUL of an exactly-sized format string is reported. */
#include "vp_rt.h"
static int vp_isspace(uint8_t c) { return c == ' ' || (c >= 9 && c <= 13); }
static int vp_digit(uint8_t c) { return (c >= '0' && c <= '9') ? c - '0' : (c >= 'a' && c <= 'z') ? c - 'a' + 10 : (c >= 'A' && c <= 'Z') ? c - 'A' + 10 : 99; }
int64_t vpx_strtol(uint8_t *nptr, uint8_t **endptr, uint32_t base) {
  VP_ASSERT(base >= 2 && base <= 36, "strtol model: explicit base 2..36 (base 0/prefix detection is not modelled)");
  uint64_t i = 0; int neg = 0, any = 0, ovf = 0; uint64_t acc = 0;
  for (;;) { VP_ACCESS(nptr + i, 1); if (!vp_isspace(nptr[i])) break; i++; }
  if (nptr[i] == '-') { neg = 1; i++; } else if (nptr[i] == '+') i++;
  for (;;) {
    VP_ACCESS(nptr + i, 1);
    uint8_t c = nptr[i];
    if ((uint32_t)vp_digit(c) >= base) break;
    uint64_t d = (uint64_t)vp_digit(c);
    uint64_t lim = neg ? (uint64_t)1 << 63 : ((uint64_t)1 << 63) - 1;
    if (acc > (lim - d) / base) ovf = 1; else acc = acc * base + d;
    any = 1; i++;
  }
  if (!any) { if (endptr) *endptr = nptr; return 0; }
  if (endptr) *endptr = nptr + i;
  if (ovf) return neg ? (int64_t)((uint64_t)1 << 63) : (int64_t)(((uint64_t)1 << 63) - 1);
  return neg ? (int64_t)((uint64_t)0 - acc) : (int64_t)acc;
}
/* LP64: long long has the range of long */
int64_t vpx_strtoll(uint8_t *nptr, uint8_t **endptr, uint32_t base) { return vpx_strtol(nptr, endptr, base); }

/* model_strtol.c -- glibc-faithful model of strtol for base 10 (the only base the format parser uses): skips isspace() characters,
 * accepts one optional sign, consumes decimal digits, clamps to LONG_MAX / LONG_MIN on overflow (errno is not observed by the
 * library), stores the end pointer (== nptr when no digits were consumed).  Every byte it examines is read through VP_ACCESS, so a
 * scan past the terminating NUL of an exactly-sized format string is reported. */
#include "vp_rt.h"
static int vp_isspace(uint8_t c) { return c == ' ' || (c >= 9 && c <= 13); }
int64_t vpx_strtol(uint8_t *nptr, uint8_t **endptr, uint32_t base) {
  VP_ASSERT(base == 10, "strtol model: base 10 only");
  uint64_t i = 0; int neg = 0, any = 0, ovf = 0; uint64_t acc = 0;
  for (;;) { VP_ACCESS(nptr + i, 1); if (!vp_isspace(nptr[i])) break; i++; }
  if (nptr[i] == '-') { neg = 1; i++; } else if (nptr[i] == '+') i++;
  for (;;) {
    VP_ACCESS(nptr + i, 1);
    uint8_t c = nptr[i];
    if (c < '0' || c > '9') break;
    uint64_t d = (uint64_t)(c - '0');
    uint64_t lim = neg ? (uint64_t)1 << 63 : ((uint64_t)1 << 63) - 1;
    if (acc > (lim - d) / 10) ovf = 1; else acc = acc * 10 + d;
    any = 1; i++;
  }
  if (!any) { if (endptr) *endptr = nptr; return 0; }
  if (endptr) *endptr = nptr + i;
  if (ovf) return neg ? (int64_t)((uint64_t)1 << 63) : (int64_t)(((uint64_t)1 << 63) - 1);
  return neg ? (int64_t)((uint64_t)0 - acc) : (int64_t)acc;
}

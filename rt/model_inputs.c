/* model_inputs.c -- CBMC side of the four input functions: a fresh nondeterministic value per call.
 * The driver reads the returned values out of the counterexample trace, in call order. */
#include <stdint.h>
uint8_t nondet_uint8(void); uint16_t nondet_uint16(void); uint32_t nondet_uint32(void); uint64_t nondet_uint64(void);
uint8_t vp_in_u8(void) { uint8_t v = nondet_uint8(); return v; }
uint16_t vp_in_u16(void) { uint16_t v = nondet_uint16(); return v; }
uint32_t vp_in_u32(void) { uint32_t v = nondet_uint32(); return v; }
uint64_t vp_in_u64(void) { uint64_t v = nondet_uint64(); return v; }
int vp_second_run;   /* rt/model_twice.c (C20) */
